#!/bin/bash
# usage: ./check.sh <property-id> [--thorough] [--replay <path>]
# Rebuilds nothing but re-loads /repo's working tree (tag verif) on every run.
cd "$(dirname "$0")"
export GOFLAGS=-mod=mod GOPROXY=off GOSUMDB=off GOTOOLCHAIN=local CARGO_NET_OFFLINE=true
if [ ! -x bin/govc ]; then
  (cd govc && GOFLAGS=-mod=vendor go build -o ../bin/govc ./cmd/govc) || { echo "cannot build govc"; exit 2; }
fi
prop="$1"; shift
if [ "$1" = "--replay" ]; then
  cat "$2"; exit 0
fi
args=()
[ "$1" = "--thorough" ] && args+=(-thorough)
# GOVC_OUT: write evidence/replay files somewhere else (seeded/try.sh, so a run on a
# deliberately broken tree does not overwrite the committed evidence)
[ -n "$GOVC_OUT" ] && args+=(-out "$GOVC_OUT")
exec ./bin/govc check -prop "$prop" "${args[@]}"
