#!/bin/bash
# C20 labelled bounded stand-in: for each fixed schema, with and without
# extended generation, the real generator's output (1) compiles, (2) is
# identical between two runs, (3) yields a database model that validates
# against the schema it was generated from, and (4) for the rich schema the
# generated copy/equality methods agree with the generic model.Clone/Equal on
# sample rows (equal, no shared memory, unequal after changing any field).
repo=${VERIF_REPO:-/repo}
export GOFLAGS=-mod=mod GOPROXY=off GOSUMDB=off GOTOOLCHAIN=local
tmp=/var/tmp/govc-c20-$$; trap 'rm -rf $tmp' EXIT
fail=0
n=0
for schema in ${C20_SCHEMAS:-c20_rich c20_names}; do
 for ext in "" "-extended"; do
  d=$tmp/$schema$ext; mkdir -p $d/gen $d/gen2
  (cd $repo && go run ./cmd/modelgen -p gen -o $d/gen $ext /verif/spec/$schema.ovsschema && go run ./cmd/modelgen -p gen -o $d/gen2 $ext /verif/spec/$schema.ovsschema) || { echo "GOVC-BOUNDED violated: generator failed on $schema $ext"; fail=1; continue; }
  diff -r $d/gen $d/gen2 > /dev/null || { echo "GOVC-BOUNDED violated: generator output for $schema $ext differs between two runs"; fail=1; }
  cat > $d/go.mod <<EOM
module c20tmp

go 1.18

require github.com/ovn-org/libovsdb v0.0.0

replace github.com/ovn-org/libovsdb => $repo
EOM
  cp $repo/go.sum $d/go.sum
  cp /verif/spec/$schema.ovsschema $d/schema.json
  sed "s/__EXTENDED__/$([ -n "$ext" ] && echo true || echo false)/; s/__RICH__/$([ $schema = c20_rich ] && echo true || echo false)/" /verif/harness/c20_main.go.txt > $d/main.go
  if [ $schema = c20_rich ] && [ -n "$ext" ]; then cp /verif/harness/c20_rich_laws.go.txt $d/laws.go; else printf 'package main\nfunc laws() []string { return nil }\n' > $d/laws.go; fi
  out=$(cd $d && go run . 2>&1); rc=$?
  n=$((n+1))
  if [ $rc -ne 0 ]; then echo "GOVC-BOUNDED violated: $schema $ext: $(echo "$out" | head -12)"; fail=1; fi
 done
done
echo "GOVC-BOUNDED modelgen: $n generator runs (schemas ${C20_SCHEMAS:-c20_rich c20_names} x extended on/off): compile, determinism, validation against the schema, copy/equality laws on sample rows; failures=$fail"
exit $fail
