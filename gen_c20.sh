#!/bin/bash
# C20: run the repository's own generator (cmd/modelgen, extended generation on)
# on the fixed rich schema, twice; the output must be identical. The files are
# then loaded by govc as virtual files of package modelgen/zzgen.
repo=${VERIF_REPO:-/repo}; gen=${GOVC_GEN:?GOVC_GEN not set}
export GOFLAGS=-mod=mod GOPROXY=off GOSUMDB=off GOTOOLCHAIN=local
cd "$repo" || exit 1
mkdir -p "$gen/again"
go run ./cmd/modelgen -p zzgen -o "$gen" -extended /verif/spec/c20_rich.ovsschema || { echo "GOVC-GENERATE violated: cmd/modelgen failed on spec/c20_rich.ovsschema"; exit 1; }
go run ./cmd/modelgen -p zzgen -o "$gen/again" -extended /verif/spec/c20_rich.ovsschema || exit 1
for f in model.go rich_table.go; do
  cmp -s "$gen/$f" "$gen/again/$f" || { echo "GOVC-GENERATE violated: $f differs between two runs of the generator on the same schema"; diff "$gen/$f" "$gen/again/$f" | head -20; exit 1; }
done
exit 0
