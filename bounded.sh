#!/bin/bash
# usage: bounded.sh <pkg-dir-in-repo> <harness-file-under-/verif/harness> <test-regexp>
# Runs a labelled bounded stand-in: an in-package test of the REAL code injected with -overlay.
cd "$(dirname "$0")"
export GOFLAGS=-mod=mod GOPROXY=off GOSUMDB=off GOTOOLCHAIN=local
repo=${VERIF_REPO:-/repo}
w=work/bounded/$(echo "$repo-$2" | tr "/." "__"); mkdir -p $w
echo "{\"Replace\": {\"$repo/$1/zz_govc_bounded_test.go\": \"$PWD/harness/$2\"}}" > $w/overlay.json
cd $repo && go test -overlay /verif/$w/overlay.json -vet=off -count=1 -timeout ${VERIF_BOUNDED_TIMEOUT:-900s} -run "$3" -v ./$1 2>&1 | grep -E "GOVC-BOUNDED|GOVC-REPLAY|^--- FAIL|^FAIL|^ok|violated|panic|^ +(initial|txn|reference|database)[ a-z]*:" | head -40
exit ${PIPESTATUS[0]}
