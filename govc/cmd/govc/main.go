package main

import (
	"flag"
	"fmt"
	"os"
	"strings"
	"time"

	"govc/engine"
)

func main() {
	if len(os.Args) < 2 {
		fmt.Fprintln(os.Stderr, "usage: govc <func|check|list> ...")
		os.Exit(2)
	}
	switch os.Args[1] {
	case "func":
		cmdFunc(os.Args[2:])
	case "check":
		os.Exit(engine.CmdCheck(os.Args[2:]))
	case "list":
		cmdList(os.Args[2:])
	default:
		fmt.Fprintln(os.Stderr, "unknown command", os.Args[1])
		os.Exit(2)
	}
}

func cmdList(args []string) {
	fs := flag.NewFlagSet("list", flag.ExitOnError)
	repo := fs.String("repo", "/repo", "repository")
	fs.Parse(args)
	w, err := engine.Load(*repo, engine.DefaultPkgs...)
	if err != nil {
		fmt.Fprintln(os.Stderr, err)
		os.Exit(2)
	}
	for n, f := range w.Funcs {
		if engine.InRepo(f) {
			fmt.Println(n)
		}
	}
}

// govc func [-safety] [-locks] pattern...   : verify single functions (debugging)
func cmdFunc(args []string) {
	fs := flag.NewFlagSet("func", flag.ExitOnError)
	repo := fs.String("repo", "/repo", "repository")
	safety := fs.Bool("safety", true, "panic-freedom obligations")
	locks := fs.Bool("locks", false, "lock balance obligations")
	covers := fs.Bool("covers", true, "reachability covers")
	inl := fs.Int("inline", 0, "auto-inline depth")
	jsonShape := fs.Bool("json", false, "assume JSON shape")
	recv := fs.Bool("recv", true, "assume non-nil pointer receivers")
	work := fs.String("work", "/verif/work/func", "work dir")
	timeout := fs.Int("t", 10000, "per-obligation timeout ms")
	pkgs := fs.String("pkgs", "./...", "package patterns (comma separated)")
	verbose := fs.Bool("v", false, "print every obligation")
	model := fs.Bool("model", false, "print a model for failed obligations")
	groups := fs.String("groups", "", "enabled contract groups (comma separated)")
	fs.Parse(args)
	t0 := time.Now()
	w, err := engine.Load(*repo, pkgList(*pkgs)...)
	if err != nil {
		fmt.Fprintln(os.Stderr, err)
		os.Exit(2)
	}
	w.Groups = map[string]bool{}
	for _, g := range strings.Split(*groups, ",") {
		if g != "" {
			w.Groups[g] = true
		}
	}
	if err := w.LoadContracts(); err != nil {
		fmt.Fprintln(os.Stderr, err)
		os.Exit(2)
	}
	fmt.Printf("loaded in %.1fs, %d functions, %d contracts\n", time.Since(t0).Seconds(), len(w.Funcs), len(w.Contracts))
	opt := engine.Options{Safety: *safety, LockBalance: *locks, Covers: *covers, AutoInline: *inl, JSONShape: *jsonShape, RecvNonNil: *recv}
	for _, pat := range fs.Args() {
		fns := w.FuncsMatching(pat)
		if len(fns) == 0 {
			fmt.Printf("no function matches %q\n", pat)
			continue
		}
		for _, fn := range fns {
			fr := engine.Generate(w, fn, opt)
			if fr.GenErr != "" {
				fmt.Printf("%s: GENERATOR ERROR %s\n", fr.Func, fr.GenErr)
				continue
			}
			engine.Solve(fr, engine.SolveOptions{WorkDir: *work, TimeoutMs: *timeout})
			ok, bad := 0, 0
			for _, o := range fr.Obls {
				if o.Discharged() {
					ok++
				} else {
					bad++
				}
				if *verbose || !o.Discharged() {
					fmt.Printf("  %-8s %-10s %s  @%s\n", o.Result, o.Solver, o.Name, o.Pos)
					if *model && !o.Discharged() && !o.Cover {
						m, s := engine.ModelFor(fr, o, engine.SolveOptions{WorkDir: *work, TimeoutMs: *timeout})
						fmt.Printf("    model by %s:\n%s\n", s, m)
					}
				}
			}
			fmt.Printf("%s: %d obligations, %d discharged, %d open; unsupported=%v\n", fr.Func, len(fr.Obls), ok, bad, fr.Unsupported)
			if len(fr.Ctx.Unverified) > 0 {
				fmt.Printf("   unverified callees: %v\n", keys(fr.Ctx.Unverified))
			}
		}
	}
}

func keys(m map[string]bool) []string {
	var out []string
	for k := range m {
		out = append(out, k)
	}
	return out
}

func pkgList(s string) []string {
	if s == "./..." {
		return engine.DefaultPkgs
	}
	return strings.Split(s, ",")
}
