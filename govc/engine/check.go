package engine

import (
	"context"
	"encoding/json"
	"flag"
	"fmt"
	"os"
	"os/exec"
	"path/filepath"
	"sort"
	"strconv"
	"strings"
	"sync"
	"time"
)

// PropSpec is the per-property configuration in /verif/spec/properties.json.
type PropSpec struct {
	Title     string     `json:"title"`
	Packages  []string   `json:"packages"`
	Functions []FuncSpec `json:"functions"`
	Bounded   []Bounded  `json:"bounded"`
	Groups    []string   `json:"groups"`
	// Generate: commands run before loading (cwd = verif dir; env VERIF_REPO, GOVC_GEN = scratch dir)
	// whose output files, with Overlay, are loaded as virtual files of the repository
	Generate []string          `json:"generate"`
	Overlay  map[string]string `json:"overlay"` // path below the repository -> file below GOVC_GEN, or verif-relative path if it starts with "spec/"
	Notes     []string   `json:"notes"`
	Assumptions []string `json:"assumptions"`
}

type FuncSpec struct {
	Pattern string `json:"pattern"`
	// Mode: "contract" (functional contract + safety), "safety" (zero-annotation
	// sweep), "locks" (lock balance / discipline)
	Safety  *bool `json:"safety,omitempty"`
	Locks   bool  `json:"locks,omitempty"`
	Inline  int   `json:"inline,omitempty"`
	JSON    bool  `json:"json,omitempty"`
	NeedContract bool `json:"need_contract,omitempty"`
	RecvNonNil   bool `json:"recv_nonnil,omitempty"`
	Closures     bool `json:"closures,omitempty"`
}

// Bounded is a labelled bounded stand-in (never counted as proved).
type Bounded struct {
	Name  string `json:"name"`
	Cmd   string `json:"cmd"`
	Bound string `json:"bound"`
	Thorough bool `json:"thorough_only,omitempty"`
}

type knownFinding struct {
	Prop, Obligation, What string
}

func loadKnown(path string) ([]knownFinding, []string) {
	b, err := os.ReadFile(path)
	if err != nil {
		return nil, nil
	}
	var out []knownFinding
	var fixed []string
	for _, ln := range strings.Split(string(b), "\n") {
		ln = strings.TrimSpace(ln)
		if strings.HasPrefix(ln, "fixed:") {
			fixed = append(fixed, ln)
			continue
		}
		if !strings.HasPrefix(ln, "known:") {
			continue
		}
		kf := knownFinding{}
		rest := strings.TrimSpace(strings.TrimPrefix(ln, "known:"))
		// property=<id> obligation=<name> what=<text>
		if i := strings.Index(rest, " what="); i >= 0 {
			kf.What = rest[i+6:]
			rest = rest[:i]
		}
		if i := strings.Index(rest, " obligation="); i >= 0 {
			kf.Obligation = strings.TrimSpace(rest[i+12:])
			rest = rest[:i]
		}
		kf.Prop = strings.TrimPrefix(strings.TrimSpace(rest), "property=")
		out = append(out, kf)
	}
	return out, fixed
}

type job struct {
	fr   *FuncResult
	spec FuncSpec
}

// CmdCheck implements `govc check -prop Cxx [-thorough]`.
func CmdCheck(args []string) int {
	fs := flag.NewFlagSet("check", flag.ExitOnError)
	prop := fs.String("prop", "", "property id")
	repo := fs.String("repo", "/repo", "repository")
	verif := fs.String("verif", "/verif", "verif directory")
	outFlag := fs.String("out", "", "directory for work/, replay/ and evidence/ (default: the verif directory)")
	thorough := fs.Bool("thorough", false, "thorough tier")
	workers := fs.Int("j", 16, "parallel solver processes")
	verbose := fs.Bool("v", false, "verbose")
	fs.Parse(args)
	start := time.Now()
	out := *verif
	if *outFlag != "" {
		out = *outFlag
	}
	tier := "quick"
	if *thorough || os.Getenv("VERIF_TIER") == "thorough" {
		tier = "thorough"
		*thorough = true
	}
	seed := 0
	if s := os.Getenv("VERIF_SEED"); s != "" {
		seed, _ = strconv.Atoi(s)
	}
	var specs map[string]*PropSpec
	b, err := os.ReadFile(filepath.Join(*verif, "spec", "properties.json"))
	if err != nil {
		fmt.Fprintln(os.Stderr, err)
		return 2
	}
	if err := json.Unmarshal(b, &specs); err != nil {
		fmt.Fprintln(os.Stderr, "properties.json:", err)
		return 2
	}
	ps := specs[*prop]
	if ps == nil {
		fmt.Fprintln(os.Stderr, "unknown property", *prop)
		return 2
	}
	pk := ps.Packages
	if len(pk) == 0 {
		pk = DefaultPkgs
	}
	if len(ps.Generate) > 0 || len(ps.Overlay) > 0 {
		genDir := filepath.Join(out, "work", *prop, "gen")
		os.RemoveAll(genDir)
		os.MkdirAll(genDir, 0o755)
		for _, g := range ps.Generate {
			cmd := exec.Command("bash", "-c", g)
			cmd.Dir = *verif
			cmd.Env = append(os.Environ(), "GOFLAGS=-mod=mod", "GOPROXY=off", "GOSUMDB=off", "GOTOOLCHAIN=local", "VERIF_REPO="+*repo, "GOVC_GEN="+genDir)
			if b, err := cmd.CombinedOutput(); err != nil {
				// the repository's generator failed on the fixed schema: a violation of the property, not a tool error
				path := filepath.Join(out, "replay", *prop, "generate_failed.txt")
				os.MkdirAll(filepath.Dir(path), 0o755)
				os.WriteFile(path, append([]byte("property: "+*prop+"\nobligation: generate\ncommand: "+g+"\n\n"), b...), 0o644)
				fmt.Printf("%s", b)
				fmt.Printf("VIOLATION property=%s replay=%s obligation=generate no-failing-input-found\n", *prop, path)
				return 1
			}
		}
		LoadOverlay = map[string][]byte{}
		for dst, src := range ps.Overlay {
			sp := filepath.Join(genDir, src)
			if strings.HasPrefix(src, "spec/") {
				sp = filepath.Join(*verif, src)
			}
			b, err := os.ReadFile(sp)
			if err != nil {
				fmt.Println("ERROR: overlay source:", err)
				return 2
			}
			LoadOverlay[filepath.Join(*repo, dst)] = b
		}
	}
	w, err := Load(*repo, pk...)
	if err != nil {
		fmt.Println("ERROR: cannot load /repo with tag verif:", err)
		return 2
	}
	w.Groups = map[string]bool{}
	for _, g := range ps.Groups {
		w.Groups[g] = true
	}
	if err := w.LoadContracts(); err != nil {
		fmt.Println("ERROR: contract files:", err)
		return 2
	}
	loadS := time.Since(start).Seconds()
	timeout := 8000
	if *thorough {
		timeout = 30000
	}
	workDir := filepath.Join(out, "work", *prop)
	os.RemoveAll(workDir)
	os.MkdirAll(workDir, 0o755)

	// ---- generate ------------------------------------------------------------
	var jobs []*job
	var unbound []string
	seen := map[string]bool{}
	for _, f := range ps.Functions {
		fns := w.FuncsMatching(f.Pattern)
		if len(fns) == 0 {
			unbound = append(unbound, "function "+f.Pattern+" not found")
			continue
		}
		for _, fn := range fns {
			if seen[ShortName(fn)] || len(fn.Blocks) == 0 {
				continue
			}
			if strings.Contains(ShortName(fn), "$") && strings.HasSuffix(f.Pattern, "*") && !strings.Contains(f.Pattern, "$") && !f.Closures {
				continue // closures are verified inline in their parent unless asked for
			}
			seen[ShortName(fn)] = true
			if f.NeedContract && w.Contracts[ShortName(fn)] == nil {
				unbound = append(unbound, "no contract for "+ShortName(fn))
			}
			jobs = append(jobs, &job{spec: f, fr: &FuncResult{Func: ShortName(fn)}})
		}
	}
	var wg sync.WaitGroup
	sem := make(chan struct{}, *workers)
	for _, j := range jobs {
		wg.Add(1)
		sem <- struct{}{}
		go func(j *job) {
			defer wg.Done()
			defer func() { <-sem }()
			fn := w.Funcs[j.fr.Func]
			safety := true
			if j.spec.Safety != nil {
				safety = *j.spec.Safety
			}
			opt := Options{Safety: safety, LockBalance: j.spec.Locks, Covers: true, AutoInline: j.spec.Inline, JSONShape: j.spec.JSON, RecvNonNil: j.spec.RecvNonNil}
			j.fr = Generate(w, fn, opt)
		}(j)
	}
	wg.Wait()
	genS := time.Since(start).Seconds() - loadS

	// ---- solve: chunks of obligations over a worker pool ------------------------
	type chunk struct {
		j    *job
		idxs map[int]bool
		id   int
	}
	var chunks []*chunk
	for _, j := range jobs {
		if j.fr.GenErr != "" {
			unbound = append(unbound, j.fr.Func+": "+j.fr.GenErr)
			continue
		}
		for _, u := range j.fr.Unsupported {
			unbound = append(unbound, j.fr.Func+": "+u)
		}
		n := len(j.fr.Obls)
		per := 6
		for s := 0; s < n; s += per {
			c := &chunk{j: j, idxs: map[int]bool{}, id: s / per}
			for i := s; i < s+per && i < n; i++ {
				c.idxs[i] = true
			}
			chunks = append(chunks, c)
		}
	}
	solveStart := time.Now()
	var mu sync.Mutex
	solverTime := map[string]int64{}
	for _, c := range chunks {
		wg.Add(1)
		sem <- struct{}{}
		go func(c *chunk) {
			defer wg.Done()
			defer func() { <-sem }()
			solveChunk(c.j.fr, c.idxs, c.id, workDir, timeout, *thorough, &mu, solverTime)
		}(c)
	}
	wg.Wait()
	// second chance: an obligation no solver decided (unknown / timeout, never a
	// "sat") is retried alone, with four times the budget and little
	// competition for the cores; slow quantified goals are the unstable ones
	{
		type redo struct {
			fr *FuncResult
			i  int
		}
		var redos []redo
		for _, j := range jobs {
			if j.fr.GenErr != "" {
				continue
			}
			for i, o := range j.fr.Obls {
				if !o.Cover && !o.Discharged() && o.Result != "sat" {
					redos = append(redos, redo{j.fr, i})
				}
			}
		}
		if len(redos) > 0 && len(redos) <= 40 {
			sem2 := make(chan struct{}, 4)
			for k, rd := range redos {
				wg.Add(1)
				sem2 <- struct{}{}
				go func(k int, rd redo) {
					defer wg.Done()
					defer func() { <-sem2 }()
					o := rd.fr.Obls[rd.i]
					f := filepath.Join(workDir, fmt.Sprintf("%s.redo%d.smt2", sanitize(rd.fr.Func), k))
					os.WriteFile(f, []byte(strings.ReplaceAll(strings.ReplaceAll(rd.fr.Ctx.Script(map[int]bool{rd.i: true}), "\n(pop 1)", "\n"), "(push 1) ; OBL", "; OBL")), 0o644)
					for _, sv := range Solvers {
						res, dur := runSolver(sv, f, 1, timeout*4)
						mu.Lock()
						solverTime[sv.Name] += dur.Milliseconds()
						mu.Unlock()
						o.TimeMs += dur.Milliseconds()
						if res[0] == "unsat" {
							o.Result, o.Solver = "unsat", sv.Name+"(retry)"
							return
						}
						if res[0] == "sat" {
							o.Result, o.Solver = "sat", sv.Name
							return
						}
					}
				}(k, rd)
			}
			wg.Wait()
		}
	}
	solveS := time.Since(solveStart).Seconds()

	// ---- classify ----------------------------------------------------------------
	known, fixed := loadKnown(filepath.Join(*verif, "known-findings.txt"))
	_ = fixed
	var all, failed, vacuous []*Obligation
	discharged := 0
	bySolver := map[string]int{}
	for _, j := range jobs {
		for _, o := range j.fr.Obls {
			all = append(all, o)
			if o.Cover {
				if o.Result == "cover-unreachable" {
					vacuous = append(vacuous, o)
				}
				continue
			}
			if o.Discharged() {
				discharged++
				bySolver[strings.Split(o.Solver, "+")[0]]++
			} else {
				failed = append(failed, o)
			}
		}
	}
	nObl := 0
	for _, o := range all {
		if !o.Cover {
			nObl++
		}
	}
	exit := 0
	var violLines, knownLines []string
	usedKnown := map[int]bool{}
	replayDir := filepath.Join(out, "replay", *prop)
	os.MkdirAll(replayDir, 0o755)
	frOf := map[string]*FuncResult{}
	for _, j := range jobs {
		frOf[j.fr.Func] = j.fr
	}
	for _, o := range failed {
		isKnown := false
		for ki, k := range known {
			if k.Prop == *prop && k.Obligation == o.Name {
				isKnown = true
				if !usedKnown[ki] {
					usedKnown[ki] = true
					knownLines = append(knownLines, fmt.Sprintf("KNOWN-FINDING: property=%s %s (%s)", *prop, k.What, o.Name))
				}
			}
		}
		if isKnown {
			continue
		}
		// try to obtain a model and a replay
		path := filepath.Join(replayDir, shortFile(o.Name)+".txt")
		model, msolver := ModelFor(frOf[o.Func], o, SolveOptions{WorkDir: workDir, TimeoutMs: timeout})
		rep := replayFor(w, *verif, *prop, frOf[o.Func], o, model)
		var sb strings.Builder
		fmt.Fprintf(&sb, "property: %s\nobligation: %s\nkind: %s\nfunction: %s\nposition: %s\nsolver verdict: %s (%s)\n", *prop, o.Name, o.Kind, o.Func, o.Pos, o.Result, o.Solver)
		fmt.Fprintf(&sb, "negated obligation (SMT): %s\n", trunc(o.Assert, 2000))
		if model != "" {
			fmt.Fprintf(&sb, "\ncounterexample model (%s):\n%s\n", msolver, trunc(model, 6000))
		} else {
			fmt.Fprintf(&sb, "\nno model: solvers answered %s for the negated obligation\n", o.Result)
		}
		suffix := " no-failing-input-found"
		if rep.Confirmed {
			suffix = ""
			fmt.Fprintf(&sb, "\nreplay on the real code CONFIRMED:\n%s\n", rep.Text)
		} else if rep.Text != "" {
			fmt.Fprintf(&sb, "\nreplay attempted, not confirmed:\n%s\n", rep.Text)
		}
		os.WriteFile(path, []byte(sb.String()), 0o644)
		violLines = append(violLines, fmt.Sprintf("VIOLATION property=%s replay=%s obligation=%s%s", *prop, path, o.Name, suffix))
		exit = 1
	}
	for _, o := range vacuous {
		path := filepath.Join(replayDir, shortFile(o.Name)+".txt")
		os.WriteFile(path, []byte(fmt.Sprintf("property: %s\nvacuity alarm: cover %s is unreachable: the assumptions (requires/invariants/axioms) before it are contradictory or the code became unreachable\n", *prop, o.Name)), 0o644)
		fmt.Printf("VACUOUS %s\n", o.Name)
		unbound = append(unbound, "vacuous: "+o.Name)
	}

	// ---- bounded stand-ins ---------------------------------------------------------
	type bres struct {
		Name, Bound, Cmd, Out string
		OK          bool
		Secs        float64
	}
	var bounded []bres
	for _, bd := range ps.Bounded {
		if bd.Thorough && !*thorough {
			continue
		}
		t0 := time.Now()
		cmd := exec.Command("bash", "-c", bd.Cmd)
		cmd.Dir = *verif
		cmd.Env = append(os.Environ(), "GOFLAGS=-mod=mod", "GOPROXY=off", "GOSUMDB=off", "GOTOOLCHAIN=local", "VERIF_PROP="+*prop, "VERIF_REPO="+*repo, "VERIF_TIER="+tier, fmt.Sprintf("VERIF_SEED=%d", seed))
		out, err := cmd.CombinedOutput()
		br := bres{Name: bd.Name, Bound: bd.Bound, Cmd: bd.Cmd, OK: err == nil, Secs: time.Since(t0).Seconds(), Out: trunc(string(out), 1500)}
		bounded = append(bounded, br)
		if err != nil {
			// a failing bounded stand-in is a violation found by execution of the real code
			path := filepath.Join(replayDir, "bounded_"+sanitize(bd.Name)+".txt")
			os.WriteFile(path, out, 0o644)
			isKnown := false
			for ki, k := range known {
				if k.Prop == *prop && k.Obligation == "bounded:"+bd.Name {
					isKnown = true
					if !usedKnown[ki] {
						usedKnown[ki] = true
						knownLines = append(knownLines, fmt.Sprintf("KNOWN-FINDING: property=%s %s (bounded:%s)", *prop, k.What, bd.Name))
					}
				}
			}
			if !isKnown {
				violLines = append(violLines, fmt.Sprintf("VIOLATION property=%s replay=%s obligation=bounded:%s", *prop, path, bd.Name))
				exit = 1
			}
		}
	}

	// ---- evidence --------------------------------------------------------------------
	var fnames []string
	trusted := map[string]bool{}
	defaults := map[string]bool{}
	unverified := map[string]bool{}
	inlined := map[string]bool{}
	usedContracts := map[string]bool{}
	jsonAssumed := false
	perFunc := map[string]map[string]int{}
	for _, j := range jobs {
		fnames = append(fnames, j.fr.Func)
		if j.fr.Ctx == nil {
			continue
		}
		for k := range j.fr.Ctx.Trusted {
			trusted[k] = true
		}
		for k := range j.fr.Ctx.Defaults {
			defaults[k] = true
		}
		for k := range j.fr.Ctx.Unverified {
			unverified[k] = true
		}
		for k := range j.fr.Ctx.Inlined {
			inlined[k] = true
		}
		for k := range j.fr.Ctx.UsedContracts {
			usedContracts[k] = true
		}
		if j.fr.Ctx.AssumedJSON {
			jsonAssumed = true
		}
		m := map[string]int{}
		for _, o := range j.fr.Obls {
			if o.Cover {
				m["covers"]++
			} else {
				m["obligations"]++
				if o.Discharged() {
					m["discharged"]++
				}
			}
		}
		perFunc[j.fr.Func] = m
	}
	sort.Strings(fnames)
	var samples []map[string]interface{}
	step := 1
	if len(all) > 8 {
		step = len(all) / 8
	}
	for i := 0; i < len(all); i += step {
		o := all[i]
		samples = append(samples, map[string]interface{}{"name": o.Name, "kind": o.Kind, "pos": o.Pos, "result": o.Result, "solver": o.Solver, "ms": o.TimeMs, "smt_chars": len(o.Assert)})
	}
	for _, o := range failed {
		samples = append(samples, map[string]interface{}{"name": o.Name, "kind": o.Kind, "pos": o.Pos, "result": o.Result, "solver": o.Solver, "FAILED": true})
	}
	tb := []string{
		"govc VC generator (this repository, /verif/govc) over go/packages + go/ssa (golang.org/x/tools v0.29.0)",
		"SMT solvers z3 5.1.0 (z3-new), z3 4.8.12, cvc5 1.0 (first unsat wins; thorough: cross-checked)",
		"memory model of DESIGN.md 2.3: mathematical integers (no overflow), float64 as Real, opaque strings, sequential execution (no concurrency)",
	}
	tb = append(tb, ps.Assumptions...)
	for _, k := range sortedKeys(trusted) {
		tb = append(tb, "trusted contract (body not verified): "+k)
	}
	if jsonAssumed {
		tb = append(tb, "encoding/json.Unmarshal into interface{} yields nil|bool|float64|string|[]interface{}|map[string]interface{}; the repository's number-preserving decoder also int (assumed shape)")
	}
	level := "proof"
	// the level recorded in the evidence is the category claimed for this property in MANIFEST.json
	if mb, err := os.ReadFile(filepath.Join(*verif, "MANIFEST.json")); err == nil {
		var mf struct {
			Checks []struct {
				PropertyID   string `json:"property_id"`
				LevelClaimed struct {
					Category string `json:"category"`
				} `json:"level_claimed"`
			} `json:"checks"`
		}
		if json.Unmarshal(mb, &mf) == nil {
			for _, ck := range mf.Checks {
				if ck.PropertyID == *prop && ck.LevelClaimed.Category != "" {
					level = ck.LevelClaimed.Category
				}
			}
		}
	}
	cov := map[string]interface{}{
		"obligations":  nObl,
		"discharged":   discharged,
		"checker_cmd":  fmt.Sprintf("govc check -prop %s (z3-new/z3/cvc5, %d ms per obligation)", *prop, timeout),
		"trusted_base": tb,
		"functions_under_contract": fnames,
		"per_function":             perFunc,
		"by_solver":                bySolver,
		"solver_cpu_ms":            solverTime,
		"covers":                   len(all) - nObl,
		"vacuity_alarms":           len(vacuous),
		"samples":                  samples,
		"default_external_contracts (result arbitrary, no heap write, no panic)": sortedKeys(defaults),
		"unverified_in_repo_callees (heap havocked at the call)":                sortedKeys(unverified),
		"inlined_callees":   sortedKeys(inlined),
		"callee_contracts_used": sortedKeys(usedContracts),
		"bounded_standins (labelled bounded, not counted in discharged)": bounded,
		"known_findings": knownLines,
		"unbound":        unbound,
		"timing_s":       map[string]float64{"load": loadS, "generate": genS, "solve": solveS},
		"evaluations":         nObl,
		"distinct_nontrivial": nObl,
		"rule":                "one evaluation = one proof obligation generated from the SSA of a function under contract; all are distinct program points/clauses",
	}
	ev := map[string]interface{}{
		"property_id": *prop, "tier": tier, "seed": seed, "level": level, "coverage": cov,
		"assumptions": tb, "wall_s": time.Since(start).Seconds(), "violations": len(violLines),
	}
	os.MkdirAll(filepath.Join(out, "evidence"), 0o755)
	eb, _ := json.MarshalIndent(ev, "", " ")
	os.WriteFile(filepath.Join(out, "evidence", *prop+".json"), eb, 0o644)

	// ---- report ------------------------------------------------------------------------
	fmt.Printf("%s [%s]: %d functions, %d obligations, %d discharged, %d failed, %d covers (%d vacuous); load %.1fs gen %.1fs solve %.1fs\n",
		*prop, tier, len(jobs), nObl, discharged, len(failed), len(all)-nObl, len(vacuous), loadS, genS, solveS)
	if *verbose {
		for _, o := range all {
			fmt.Printf("  %-16s %-20s %s @%s\n", o.Result, o.Solver, o.Name, o.Pos)
		}
	}
	for _, b := range bounded {
		st := "ok"
		if !b.OK {
			st = "FAILED"
		}
		fmt.Printf("bounded stand-in %s [%s]: %s (%.1fs)\n", b.Name, b.Bound, st, b.Secs)
	}
	for _, l := range knownLines {
		fmt.Println(l)
	}
	for _, l := range violLines {
		fmt.Println(l)
	}
	if exit == 0 && len(unbound) > 0 {
		for _, u := range unbound {
			fmt.Println("CONTRACT-UNBOUND", u)
		}
		return 2
	}
	return exit
}

func sortedKeys(m map[string]bool) []string {
	out := make([]string, 0, len(m))
	for k := range m {
		out = append(out, k)
	}
	sort.Strings(out)
	return out
}

// solveChunk discharges a subset of a function's obligations.
func solveChunk(fr *FuncResult, idxs map[int]bool, id int, workDir string, timeoutMs int, cross bool, mu *sync.Mutex, solverTime map[string]int64) {
	base := filepath.Join(workDir, fmt.Sprintf("%s.c%d", sanitize(fr.Func), id))
	var order []int
	for i := range fr.Obls {
		if idxs[i] {
			order = append(order, i)
		}
	}
	pending := map[int]bool{}
	covers := map[int]bool{}
	for _, i := range order {
		if fr.Obls[i].Cover {
			covers[i] = true
		} else {
			pending[i] = true
		}
	}
	if len(covers) > 0 {
		f := base + ".covers.smt2"
		os.WriteFile(f, []byte(fr.Ctx.Script(covers)), 0o644)
		var ci []int
		for _, i := range order {
			if covers[i] {
				ci = append(ci, i)
			}
		}
		res, dur := runSolver(Solvers[0], f, len(ci), 300)
		for k, i := range ci {
			o := fr.Obls[i]
			o.Solver = Solvers[0].Name
			o.TimeMs = dur.Milliseconds() / int64(len(ci))
			if res[k] == "unsat" {
				o.Result = "cover-unreachable"
			} else {
				o.Result = "cover-ok"
			}
		}
	}
	// stage 1: the whole chunk, incrementally (push/pop), on the first solver with a
	// short budget - almost everything goes here. thorough: also on the second
	// solver, for agreement.
	stage1 := func(si int, to int, all bool) {
		s := Solvers[si]
		var run []int
		sel := map[int]bool{}
		for _, i := range order {
			if covers[i] {
				continue
			}
			if pending[i] || all {
				run = append(run, i)
				sel[i] = true
			}
		}
		if len(run) == 0 {
			return
		}
		f := fmt.Sprintf("%s.s%d.smt2", base, si)
		os.WriteFile(f, []byte(fr.Ctx.Script(sel)), 0o644)
		res, dur := runSolver(s, f, len(run), to)
		mu.Lock()
		solverTime[s.Name] += dur.Milliseconds()
		mu.Unlock()
		for k, i := range run {
			o := fr.Obls[i]
			o.TimeMs += dur.Milliseconds() / int64(len(run))
			if res[k] == "unsat" {
				if o.Result == "unsat" {
					o.Solver += "+" + s.Name
				} else {
					o.Result, o.Solver = "unsat", s.Name
				}
				delete(pending, i)
			} else if o.Result != "unsat" && (o.Result == "" || res[k] == "sat") {
				o.Result, o.Solver = res[k], s.Name
			}
		}
	}
	short := timeoutMs
	if short > 3000 {
		short = 3000
	}
	if cross {
		stage1(0, short, false)
		stage1(1, timeoutMs, true)
	} else {
		// the two z3 generations have very different strengths on these goals
		// (4.8 decides most quantified heap goals in milliseconds where 5.1 spends
		// its whole budget, 5.1 decides arithmetic goals 4.8 cannot): 4.8 first with
		// a one second budget, then 5.1 on what is left
		stage1(1, 1000, false)
		stage1(0, short, false)
	}
	// stage 2: every obligation still undecided, alone, as a portfolio run in
	// parallel: each solver on the incremental form (push/pop) and the first
	// solver also on the plain form (no push/pop: full preprocessing). Which form
	// wins differs from goal to goal; the first unsat (or sat) decides.
	for _, i := range order {
		if !pending[i] {
			continue
		}
		o := fr.Obls[i]
		inc := fr.Ctx.Script(map[int]bool{i: true})
		plain := strings.ReplaceAll(strings.ReplaceAll(inc, "\n(pop 1)", "\n"), "(push 1) ; OBL", "; OBL")
		fi := fmt.Sprintf("%s.o%d.smt2", base, i)
		fp := fmt.Sprintf("%s.o%d.plain.smt2", base, i)
		os.WriteFile(fi, []byte(inc), 0o644)
		os.WriteFile(fp, []byte(plain), 0o644)
		type att struct {
			s Solver
			f string
		}
		atts := []att{{Solvers[0], fi}, {Solvers[0], fp}}
		for _, sv := range Solvers[1:] {
			atts = append(atts, att{sv, fi})
		}
		type outc struct {
			res  string
			name string
			dur  time.Duration
		}
		ch := make(chan outc, len(atts))
		pctx, pcancel := context.WithCancel(context.Background())
		for _, a := range atts {
			go func(a att) {
				res, dur := runSolverCtx(pctx, a.s, a.f, 1, timeoutMs)
				n := a.s.Name
				if a.f == fp {
					n += "(plain)"
				}
				ch <- outc{res[0], n, dur}
			}(a)
		}
		decided := false
		for range atts {
			r := <-ch
			mu.Lock()
			solverTime[strings.TrimSuffix(r.name, "(plain)")] += r.dur.Milliseconds()
			mu.Unlock()
			if decided {
				continue
			}
			if r.res == "unsat" || r.res == "sat" {
				o.Result, o.Solver = r.res, r.name
				o.TimeMs += r.dur.Milliseconds()
				decided = true
				if r.res == "unsat" {
					delete(pending, i)
				}
				pcancel() // the others are no longer needed
			} else if o.Result == "" || o.Result == "error" {
				o.Result, o.Solver = r.res, r.name
			}
		}
		pcancel()
	}
}

func shortFile(name string) string {
	h := uint32(2166136261)
	for i := 0; i < len(name); i++ {
		h ^= uint32(name[i])
		h *= 16777619
	}
	base := name
	if i := strings.Index(base, "["); i > 0 {
		base = base[:i]
	}
	return fmt.Sprintf("%s_%08x", sanitize(base), h)
}
