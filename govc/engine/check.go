package engine

// CmdCheck is implemented in check_impl.go (property driver).

func CmdCheck(args []string) int { return 2 }
