package engine

import (
	"os"
	"fmt"
	"go/token"
	"go/types"
	"sort"

	"golang.org/x/tools/go/ssa"
)

// frame is one activation of a function (top-level or inlined).
type frame struct {
	c       *Ctx
	fn      *ssa.Function
	key     string
	vals    map[ssa.Value]T
	tuples  map[ssa.Value][]T
	params  []T
	freev   []T
	out     map[*ssa.BasicBlock]*State // exit states
	loops   map[*ssa.BasicBlock]*loopInfo
	inLoops map[*ssa.BasicBlock][]*loopInfo
	defers  []*deferRec
	rets    []*retRec
	contract *Contract
	entrySt *State // state at function entry (for old())
	results []T
	rangeIt map[ssa.Value]*rangeRec
	parent  *frame
	loopDefers bool
	activeAtCall []string
	keepActiveAtCall bool
}

type retRec struct {
	st   *State
	vals []T
	pos  token.Pos
}

type loopInfo struct {
	head   *ssa.BasicBlock
	blocks map[*ssa.BasicBlock]bool
	backs  []*ssa.BasicBlock // preds of head inside the loop
	ord    int               // 1-based ordinal in head-index order
	key    string
	headSt *State // state after havoc+invariants (for debugging)
	lockEntry map[string]T
}

type rangeRec struct {
	x     T
	typ   types.Type
	it    T // iterator object (maps)
	isMap bool
}

func (c *Ctx) newFrame(fn *ssa.Function, parent *frame) *frame {
	c.frameSeq++
	fr := &frame{c: c, fn: fn, vals: map[ssa.Value]T{}, tuples: map[ssa.Value][]T{}, out: map[*ssa.BasicBlock]*State{},
		rangeIt: map[ssa.Value]*rangeRec{}, parent: parent}
	fr.key = fmt.Sprintf("%s@%d", ShortName(fn), c.frameSeq)
	fr.findLoops()
	return fr
}

// findLoops computes natural loops from the dominator tree.
func (fr *frame) findLoops() {
	fr.loops = map[*ssa.BasicBlock]*loopInfo{}
	fr.inLoops = map[*ssa.BasicBlock][]*loopInfo{}
	for _, b := range fr.fn.Blocks {
		for _, s := range b.Succs {
			if s.Dominates(b) { // back edge b -> s
				li := fr.loops[s]
				if li == nil {
					li = &loopInfo{head: s, blocks: map[*ssa.BasicBlock]bool{s: true}}
					fr.loops[s] = li
				}
				li.backs = append(li.backs, b)
				// natural loop: nodes reaching b without passing s
				stack := []*ssa.BasicBlock{b}
				for len(stack) > 0 {
					n := stack[len(stack)-1]
					stack = stack[:len(stack)-1]
					if li.blocks[n] {
						continue
					}
					li.blocks[n] = true
					for _, p := range n.Preds {
						stack = append(stack, p)
					}
				}
			}
		}
	}
	var heads []*ssa.BasicBlock
	for h := range fr.loops {
		heads = append(heads, h)
	}
	sort.Slice(heads, func(i, j int) bool { return heads[i].Index < heads[j].Index })
	for i, h := range heads {
		li := fr.loops[h]
		li.ord = i + 1
		li.key = fmt.Sprintf("%s#L%d", fr.key, li.ord)
		for b := range li.blocks {
			fr.inLoops[b] = append(fr.inLoops[b], li)
		}
	}
}

func (fr *frame) rpo() []*ssa.BasicBlock {
	seen := map[*ssa.BasicBlock]bool{}
	var post []*ssa.BasicBlock
	var dfs func(b *ssa.BasicBlock)
	dfs = func(b *ssa.BasicBlock) {
		seen[b] = true
		for _, s := range b.Succs {
			if s.Dominates(b) { // back edge
				continue
			}
			if !seen[s] {
				dfs(s)
			}
		}
		post = append(post, b)
	}
	if len(fr.fn.Blocks) > 0 {
		dfs(fr.fn.Blocks[0])
	}
	for i, j := 0, len(post)-1; i < j; i, j = i+1, j-1 {
		post[i], post[j] = post[j], post[i]
	}
	return post
}

// edgeState returns the state flowing along pred -> b.
func (fr *frame) edgeState(pred, b *ssa.BasicBlock) *State {
	st := fr.out[pred]
	if st == nil {
		return nil
	}
	if iff, ok := pred.Instrs[len(pred.Instrs)-1].(*ssa.If); ok {
		cond := fr.val(iff.Cond)
		s := st.clone()
		if pred.Succs[0] == b && pred.Succs[1] == b {
			return s
		}
		if pred.Succs[0] == b {
			s.pc = And(st.pc, cond)
		} else {
			s.pc = And(st.pc, Not(cond))
		}
		return s
	}
	return st.clone()
}

func predIndex(b, pred *ssa.BasicBlock) int {
	for i, p := range b.Preds {
		if p == pred {
			return i
		}
	}
	return -1
}

// run executes the function body from the entry state.
func (fr *frame) run(entry *State) {
	c := fr.c
	fn := fr.fn
	if len(fn.Blocks) == 0 {
		c.unsupported("function %s has no body", ShortName(fn))
		return
	}
	fr.entrySt = entry.clone()
	for _, b := range fr.rpo() {
		var st *State
		if b.Index == 0 {
			st = entry.clone()
		} else {
			li := fr.loops[b]
			var ins []*State
			var inPreds []*ssa.BasicBlock
			for _, p := range b.Preds {
				if li != nil && li.blocks[p] {
					continue // back edge handled at the end of p
				}
				if es := fr.edgeState(p, b); es != nil && es.pc.S != "false" {
					ins = append(ins, es)
					inPreds = append(inPreds, p)
				}
			}
			if len(ins) == 0 {
				fr.out[b] = &State{pc: False, heaps: map[string]T{}}
				// still define phis to something
				for _, in := range b.Instrs {
					if phi, ok := in.(*ssa.Phi); ok {
						fr.vals[phi] = c.R.Zero(phi.Type())
					}
				}
				fr.execDead(b)
				continue
			}
			st = c.merge(ins)
			// phis
			var pcs []T
			for _, s := range ins {
				pcs = append(pcs, s.pc)
			}
			phiVals := map[*ssa.Phi]T{}
			for _, in := range b.Instrs {
				phi, ok := in.(*ssa.Phi)
				if !ok {
					break
				}
				var vs []T
				for _, p := range inPreds {
					vs = append(vs, fr.val(phi.Edges[predIndex(b, p)]))
				}
				phiVals[phi] = c.name(phiName(phi), c.iteChain(pcs, vs))
			}
			if li != nil {
				fr.loopHead(li, st, phiVals)
			} else {
				for p, v := range phiVals {
					fr.vals[p] = v
				}
			}
		}
		fr.execBlock(b, st)
	}
}

func phiName(p *ssa.Phi) string {
	if p.Comment != "" {
		return "phi_" + p.Comment
	}
	return "phi_" + p.Name()
}

// execDead assigns arbitrary values to the instructions of an unreachable block.
func (fr *frame) execDead(b *ssa.BasicBlock) {
	for _, in := range b.Instrs {
		if v, ok := in.(ssa.Value); ok {
			if _, isPhi := in.(*ssa.Phi); isPhi {
				continue
			}
			if tup, ok := v.Type().(*types.Tuple); ok {
				var ts []T
				for i := 0; i < tup.Len(); i++ {
					ts = append(ts, fr.c.R.Zero(tup.At(i).Type()))
				}
				fr.tuples[v] = ts
				continue
			}
			fr.vals[v] = fr.c.R.Zero(v.Type())
		}
	}
}

// loopHead cuts the loop: assert invariants on entry, havoc, assume.
func (fr *frame) loopHead(li *loopInfo, st *State, entryPhis map[*ssa.Phi]T) {
	c := fr.c
	b := li.head
	c.comment("loop %d head block %d of %s", li.ord, b.Index, ShortName(fr.fn))
	// 1. invariants on entry, with phis bound to entry values
	for p, v := range entryPhis {
		fr.vals[p] = v
	}
	invs := fr.loopInvariants(li)
	for i, inv := range invs {
		t, err := fr.evalInv(inv, st, li)
		if err != nil {
			c.unsupported("loop %d invariant %d of %s: %v", li.ord, i+1, ShortName(fr.fn), err)
			continue
		}
		c.oblige(st, "inv-entry", fmt.Sprintf("loop %d: %s", li.ord, inv.Text), t, b.Instrs[0].Pos())
	}
	// 2. havoc
	if c.scan {
		c.active = append(c.active, li.key)
		// the head block itself executes inside the loop; popped in endLoopBlocks
	}
	var snaps []stableSnap
	if !c.scan {
		snaps = c.snapshotStable(st, func(sc *stableCell) bool {
			for _, in := range sc.stores {
				if in.Parent() != fr.fn || li.blocks[in.Block()] {
					return false
				}
			}
			return true
		})
	}
	if !c.scan {
		if os.Getenv("GOVC_DEBUG") != "" {
			fmt.Fprintf(os.Stderr, "[loop-head] %s all=%v unknown=%v callees=%d writes=%v\n", li.key, c.loopAll[li.key], c.loopAllUnknown[li.key], len(c.loopCallees[li.key]), c.loopWrites[li.key])
		}
		if c.loopAll[li.key] && !c.loopAllUnknown[li.key] {
			before := make(map[string]T, len(st.heaps))
			for k, v := range st.heaps {
				before[k] = v
			}
			c.rawHavoc = true
			c.havocAllCallees(st, c.loopCallees[li.key])
			c.rawHavoc = false
			// fields no callee of the loop can reach and the loop body does not
			// write itself keep their value across iterations
			c.keepEncapsulatedExcept(st, before, c.loopCallees[li.key], c.loopWrites[li.key])
		} else if c.loopAll[li.key] {
			c.rawHavoc = true
			c.havocAll(st)
			c.rawHavoc = false
		} else {
			var names []string
			for n := range c.loopWrites[li.key] {
				names = append(names, n)
			}
			sort.Strings(names)
			written := c.loopWrites[li.key]
			for _, pr := range [][2]string{{HLockW, HDefW}, {HLockR, HDefR}} {
				if !written[pr[0]] && !written[pr[1]] {
					continue
				}
				if li.lockEntry == nil {
					li.lockEntry = map[string]T{}
				}
				if !written[pr[1]] {
					// automatic invariant: every iteration is lock-balanced
					li.lockEntry[pr[0]] = c.getHeap(st, pr[0])
					continue
				}
				// deferred unlocks in the loop: invariant on held - deferred
				c.R.Heap(pr[0], ArraySort("Ref", "Int"))
				el, ed := c.getHeap(st, pr[0]), c.getHeap(st, pr[1])
				li.lockEntry["net:"+pr[0]] = el
				li.lockEntry["net:"+pr[1]] = ed
				c.havocHeap(st, pr[0])
				c.havocHeap(st, pr[1])
				c.assume(st, netLockInv(c.getHeap(st, pr[0]), c.getHeap(st, pr[1]), el, ed))
			}
			for _, n := range names {
				if n == HLockW || n == HLockR || n == HDefW || n == HDefR {
					continue
				}
				if n == HAlloc || n == HPriv {
					old := c.getHeap(st, n)
					c.havocHeap(st, n)
					nw := st.heaps[n]
					c.emit("(assert (forall ((a Ref)) (! (=> (select %s a) (select %s a)) :pattern ((select %s a)))))", old.S, nw.S, nw.S)
					continue
				}
				c.havocHeap(st, n)
			}
		}
	}
	c.restoreStable(st, snaps)
	for p := range entryPhis {
		nv := c.fresh(phiName(p), c.R.SortOf(p.Type()))
		fr.vals[p] = nv
		c.assumeValid(st, nv, p.Type())
	}
	// 3. assume invariants (user + automatic)
	for _, inv := range invs {
		t, err := fr.evalInv(inv, st, li)
		if err == nil {
			c.assume(st, t)
		}
	}
	fr.autoInvariants(li, st, entryPhis)
	if !c.scan {
		for _, fc := range c.topFrameConds(st) {
			c.assume(st, fc.cond)
		}
	}
	li.headSt = st.clone()
	c.cover(st, fmt.Sprintf("loop %d body reachable", li.ord), b.Instrs[0].Pos())
}

// autoInvariants adds the automatic range-index invariant: for
//   i = phi [entry: c, back: i + k]  with k > 0:  i >= c
// and for rangeindex loops additionally i < len (checked like any invariant on
// the back edge by backEdge()).
func (fr *frame) autoInvariants(li *loopInfo, st *State, entryPhis map[*ssa.Phi]T) {
	for p, ev := range entryPhis {
		if fr.c.R.SortOf(p.Type()) != "Int" {
			continue
		}
		if k, ok := fr.monotonePhi(li, p); ok && k > 0 {
			fr.c.assume(st, app("Bool", "<=", ev, fr.vals[p]))
		}
		if p.Comment == "rangeindex" {
			// i = phi[-1, i+1]; loop continues while i+1 < len: i < len is inductive (len >= 0)
			for _, in := range li.head.Instrs {
				if bo, ok := in.(*ssa.BinOp); ok && bo.Op == token.LSS {
					if inc, ok := bo.X.(*ssa.BinOp); ok && inc.Op == token.ADD && inc.X == ssa.Value(p) {
						if _, defined := fr.vals[bo.Y]; defined {
							bound := fr.vals[bo.Y]
							fr.c.assume(st, Implies(le(IntLit(0), bound), lt(fr.vals[p], bound)))
						}
					}
				}
			}
		}
	}
}

// monotonePhi reports whether every back-edge value of p is p + k (k const).
func (fr *frame) monotonePhi(li *loopInfo, p *ssa.Phi) (int64, bool) {
	var k int64
	found := false
	for i, pred := range li.head.Preds {
		if !li.blocks[pred] {
			continue
		}
		bo, ok := p.Edges[i].(*ssa.BinOp)
		if !ok || bo.Op != token.ADD || bo.X != ssa.Value(p) {
			return 0, false
		}
		cst, ok := bo.Y.(*ssa.Const)
		if !ok || cst.Value == nil {
			return 0, false
		}
		v := cst.Int64()
		if found && v != k {
			return 0, false
		}
		k, found = v, true
	}
	return k, found
}

// backEdge checks the invariants on a back edge pred -> head.
func (fr *frame) backEdge(li *loopInfo, pred *ssa.BasicBlock) {
	c := fr.c
	st := fr.edgeState(pred, li.head)
	if st == nil || st.pc.S == "false" {
		return
	}
	idx := predIndex(li.head, pred)
	saved := map[*ssa.Phi]T{}
	entryVals := map[*ssa.Phi]T{}
	for _, in := range li.head.Instrs {
		phi, ok := in.(*ssa.Phi)
		if !ok {
			break
		}
		saved[phi] = fr.vals[phi]
		entryVals[phi] = fr.val(phi.Edges[idx])
	}
	// automatic monotone invariant is inductive by construction (i+k >= i >= c)
	for p, v := range entryVals {
		fr.vals[p] = v
	}
	for _, inv := range fr.loopInvariants(li) {
		t, err := fr.evalInv(inv, st, li)
		if err != nil {
			continue
		}
		c.oblige(st, "inv-preserved", fmt.Sprintf("loop %d: %s", li.ord, inv.Text), t, pred.Instrs[len(pred.Instrs)-1].Pos())
	}
	for _, pr := range [][2]string{{HLockW, HDefW}, {HLockR, HDefR}} {
		if el, ok := li.lockEntry["net:"+pr[0]]; ok {
			c.oblige(st, "lock-balance-loop", fmt.Sprintf("loop %d: %s - %s", li.ord, pr[0], pr[1]),
				netLockInv(c.getHeap(st, pr[0]), c.getHeap(st, pr[1]), el, li.lockEntry["net:"+pr[1]]), pred.Instrs[len(pred.Instrs)-1].Pos())
		}
	}
	for _, h := range []string{HLockW, HLockR} {
		if e, ok := li.lockEntry[h]; ok {
			c.oblige(st, "lock-balance-loop", fmt.Sprintf("loop %d: %s", li.ord, h), Eq(c.getHeap(st, h), e), pred.Instrs[len(pred.Instrs)-1].Pos())
		}
	}
	if !c.scan {
		for _, fc := range c.topFrameConds(st) {
			c.oblige(st, "frame-inv", fmt.Sprintf("loop %d: %s", li.ord, fc.name), fc.cond, pred.Instrs[len(pred.Instrs)-1].Pos())
		}
	}
	for p, v := range saved {
		fr.vals[p] = v
	}
}

func (fr *frame) execBlock(b *ssa.BasicBlock, st *State) {
	c := fr.c
	if c.scan {
		// active loop stack = loops of enclosing frames + loops containing b
		base := len(c.active)
		_ = base
	}
	savedActive := c.active
	if c.scan {
		act := append([]string(nil), fr.outerActive()...)
		for _, li := range fr.inLoops[b] {
			act = append(act, li.key)
		}
		c.active = act
	}
	c.comment("block %d (%s) of %s", b.Index, b.Comment, ShortName(fr.fn))
	for _, in := range b.Instrs {
		if _, ok := in.(*ssa.Phi); ok {
			continue
		}
		fr.execInstr(in, st)
	}
	fr.out[b] = st
	// back edges leaving this block
	for _, s := range b.Succs {
		if li := fr.loops[s]; li != nil && li.blocks[b] && s.Dominates(b) {
			fr.backEdge(li, b)
		}
	}
	if c.scan {
		c.active = savedActive
	}
}

func (fr *frame) outerActive() []string {
	if fr.parent == nil {
		return nil
	}
	return fr.parent.activeAtCall
}

// val returns the term of an SSA value.
func (fr *frame) val(v ssa.Value) T {
	if t, ok := fr.vals[v]; ok {
		return t
	}
	c := fr.c
	switch x := v.(type) {
	case *ssa.Const:
		return c.constVal(x)
	case *ssa.Global:
		return c.globalAddr(x)
	case *ssa.Function:
		return c.funcValue(x)
	case *ssa.Parameter:
		for i, p := range fr.fn.Params {
			if p == x {
				return fr.params[i]
			}
		}
	case *ssa.FreeVar:
		for i, p := range fr.fn.FreeVars {
			if p == x {
				if i < len(fr.freev) {
					return fr.freev[i]
				}
			}
		}
	case *ssa.Builtin:
		return T{"builtin", "Ref"}
	}
	// value used before definition (dead code or unsupported order)
	c.unsupported("value %s (%T) of %s used before definition", v.Name(), v, ShortName(fr.fn))
	t := c.R.Zero(v.Type())
	fr.vals[v] = t
	return t
}

// netLockInv: for every mutex, held minus deferred-unlocks is what it was at
// loop entry, and deferred unlocks only grow.
func netLockInv(lk, df, el, ed T) T {
	return T{fmt.Sprintf("(forall ((m Ref)) (! (and (= (- (select %s m) (select %s m)) (- (select %s m) (select %s m))) (>= (select %s m) (select %s m))) :pattern ((select %s m)) :pattern ((select %s m))))",
		lk.S, df.S, el.S, ed.S, df.S, ed.S, lk.S, df.S), "Bool"}
}
