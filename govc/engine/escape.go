package engine

import (
	"go/token"
	"go/types"

	"golang.org/x/tools/go/ssa"
)

// Escape analysis for locally allocated objects (Alloc, MakeSlice, MakeMap,
// new arrays): an object that never reaches a callee, a closure, an interface
// value, a channel or non-local memory cannot be written by any callee, so
// its cells survive the heap havoc of a call. Returning the object is fine
// (it only becomes visible after the function ends).

type escInfo struct {
	memo map[ssa.Value]int // 0 unknown, 1 in progress, 2 no, 3 yes
}

func newEscInfo() *escInfo { return &escInfo{memo: map[ssa.Value]int{}} }

// localRoot follows address/slice derivations to the allocation they come from.
func localRoot(v ssa.Value, depth int) ssa.Value {
	if depth > 20 {
		return nil
	}
	switch x := v.(type) {
	case *ssa.Alloc, *ssa.MakeSlice, *ssa.MakeMap:
		return v
	case *ssa.IndexAddr:
		return localRoot(x.X, depth+1)
	case *ssa.FieldAddr:
		return localRoot(x.X, depth+1)
	case *ssa.Slice:
		return localRoot(x.X, depth+1)
	case *ssa.ChangeType:
		return localRoot(x.X, depth+1)
	case *ssa.Call:
		if b, ok := x.Call.Value.(*ssa.Builtin); ok && b.Name() == "append" {
			return localRoot(x.Call.Args[0], depth+1)
		}
	case *ssa.UnOp:
		// load of a slice/map/pointer held in a non-escaping local variable:
		// `s := make(...)` with s address-taken — follow single-store locals
		if x.Op == token.MUL {
			if a, ok := x.X.(*ssa.Alloc); ok {
				var stored ssa.Value
				n := 0
				if refs := a.Referrers(); refs != nil {
					for _, in := range *refs {
						if st, ok := in.(*ssa.Store); ok && st.Addr == a {
							stored = st.Val
							n++
						}
					}
				}
				if n == 1 {
					return localRoot(stored, depth+1)
				}
			}
		}
	}
	return nil
}

// valueEscapes: can the object(s) denoted by reference value v be reached by
// a callee?
func (e *escInfo) valueEscapes(v ssa.Value) bool {
	switch e.memo[v] {
	case 1, 2:
		return false // in progress (cycle) or known not to escape
	case 3:
		return true
	}
	e.memo[v] = 1
	res := e.compute(v)
	if res {
		e.memo[v] = 3
	} else {
		e.memo[v] = 2
	}
	return res
}

func (e *escInfo) compute(v ssa.Value) bool {
	refs := v.Referrers()
	if refs == nil {
		return true
	}
	for _, in := range *refs {
		switch x := in.(type) {
		case *ssa.DebugRef, *ssa.Return, *ssa.If, *ssa.Range, *ssa.Next:
		case *ssa.UnOp:
			if x.Op == token.MUL {
				// loading through the address: the loaded value is a different object,
				// unless v is an Alloc holding a reference (handled by localRoot)
				continue
			}
			return true
		case *ssa.BinOp:
			// comparisons only
		case *ssa.Store:
			if x.Addr == v {
				continue // writing into the object
			}
			// storing the reference somewhere: fine only inside another
			// non-escaping local object
			root := localRoot(x.Addr, 0)
			if root == nil || root == v || e.valueEscapes(root) {
				return true
			}
		case *ssa.MapUpdate:
			if x.Map == v && x.Key != v && x.Value != v {
				continue
			}
			root := localRoot(x.Map, 0)
			if x.Map == v {
				root = v
			}
			if root == nil || (root != v && e.valueEscapes(root)) {
				return true
			}
		case *ssa.Lookup:
			// reading
		case *ssa.IndexAddr:
			if x.X == v && e.valueEscapes(x) {
				return true
			}
		case *ssa.FieldAddr:
			if x.X == v && e.valueEscapes(x) {
				return true
			}
		case *ssa.Index, *ssa.Field:
		case *ssa.Slice:
			if e.valueEscapes(x) {
				return true
			}
		case *ssa.Phi:
			if e.valueEscapes(x) {
				return true
			}
		case *ssa.ChangeType:
			if e.valueEscapes(x) {
				return true
			}
		case *ssa.Extract:
		case *ssa.Call:
			b, ok := x.Call.Value.(*ssa.Builtin)
			if !ok {
				return true
			}
			switch b.Name() {
			case "len", "cap", "delete", "copy", "print", "println", "min", "max":
			case "append":
				if len(x.Call.Args) > 0 && x.Call.Args[0] == v {
					if e.valueEscapes(x) {
						return true
					}
				}
				// as the appended slice argument: elements are read only
			default:
				return true
			}
		default:
			return true
		}
	}
	return false
}

// localObj is a locally allocated object that no callee can reach.
type localObj struct {
	ref T
	typ types.Type // slice, map or pointer-to-array/struct type of the allocation
}

// keepLocalObjs asserts, after a heap havoc, that the cells of every
// non-escaping local object kept their value. before maps heap name -> term.
func (c *Ctx) keepLocalObjs(st *State, before map[string]T) {
	for _, lo := range c.localObjs {
		switch u := under(lo.typ).(type) {
		case *types.Map:
			for _, h := range []string{c.R.MDomHeapT(u), c.R.MValHeapT(u)} {
				old, ok := before[h]
				cur, ok2 := st.heaps[h]
				if ok && ok2 && old.S != cur.S {
					c.emit("(assert (= (select %s %s) (select %s %s)))", cur.S, lo.ref.S, old.S, lo.ref.S)
				}
			}
		case *types.Slice:
			var heaps []string
			var walk func(t types.Type)
			walk = func(t types.Type) {
				if st, ok := under(t).(*types.Struct); ok {
					for i := 0; i < st.NumFields(); i++ {
						walk(st.Field(i).Type())
					}
					return
				}
				heaps = append(heaps, c.R.CellHeapT(t))
			}
			walk(u.Elem())
			seen := map[string]bool{}
			for _, h := range heaps {
				if seen[h] {
					continue
				}
				seen[h] = true
				old, ok := before[h]
				cur, ok2 := st.heaps[h]
				if ok && ok2 && old.S != cur.S {
					c.emit("(assert (forall ((a Ref)) (! (=> (= (rroot a) %s) (= (select %s a) (select %s a))) :pattern ((select %s a)))))", lo.ref.S, cur.S, old.S, cur.S)
				}
			}
		}
	}
}
