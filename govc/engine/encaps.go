package engine

import (
	"fmt"
	"go/types"
	"sort"
	"strings"

	"golang.org/x/tools/go/ssa"
)

// Package-encapsulation frame rule.
//
// An unexported field of a struct type declared in package P can only be
// written by code of package P: other packages cannot name it, reflection
// refuses to set it, and (checked below) no code outside P assigns whole
// values of that struct type through a pointer. So a callee that cannot reach
// any function of P leaves every such field untouched, whatever else it does.

// reachablePkgs: in-repo packages whose code the call may execute.
func (c *Ctx) reachablePkgs(cc *ssa.CallCommon) map[string]bool {
	out := map[string]bool{}
	seen := map[*ssa.Function]bool{}
	var visit func(fn *ssa.Function)
	visitInvoke := func(m *types.Func) {
		msig := m.Type().(*types.Signature)
		for n, f := range c.W.Funcs {
			if InRepo(f) && f.Signature.Recv() != nil && methodOf(n) == m.Name() && sameSig(f.Signature, msig) {
				visit(f)
			}
		}
	}
	visit = func(fn *ssa.Function) {
		if fn == nil || seen[fn] || !InRepo(fn) {
			return
		}
		seen[fn] = true
		if p := PkgOfFunc(fn); p != nil {
			out[p.Path()] = true
		}
		for _, b := range fn.Blocks {
			for _, in := range b.Instrs {
				switch x := in.(type) {
				case *ssa.MakeClosure:
					visit(x.Fn.(*ssa.Function))
				case ssa.CallInstruction:
					cc := x.Common()
					if cc.IsInvoke() {
						if methodInRepo(cc.Method) {
							visitInvoke(cc.Method)
						}
					} else if callee := cc.StaticCallee(); callee != nil {
						visit(callee)
					}
					// dynamic call of a function value: closures created by visited
					// code are visited where they are made, closures handed in as
					// arguments are visited at the call site (below); callbacks
					// registered earlier by library users are assumed not to re-enter
					// the package whose fields are protected (listed assumption)
				}
			}
		}
	}
	if cc.IsInvoke() {
		if methodInRepo(cc.Method) {
			visitInvoke(cc.Method)
		}
	} else if callee := cc.StaticCallee(); callee != nil {
		visit(callee)
	} else {
		out["*"] = true
	}
	// function values passed as arguments run inside the callee
	for _, a := range cc.Args {
		switch x := a.(type) {
		case *ssa.MakeClosure:
			visit(x.Fn.(*ssa.Function))
		case *ssa.Function:
			visit(x)
		default:
			if _, isFunc := under(a.Type()).(*types.Signature); isFunc {
				out["*"] = true
			}
		}
	}
	return out
}

// protectedFields: field ids of unexported fields of named struct types that
// are declared in in-repo packages, grouped by the heap their cell lives in.
type protField struct {
	fid  int
	heap string
	pkg  string
}

func (c *Ctx) protectedFieldList() []protField {
	if c.protFields != nil {
		return c.protFields
	}
	c.protFields = []protField{}
	for path, p := range c.W.TypePkgs {
		if !strings.HasPrefix(path, ModPath) {
			continue
		}
		scope := p.Scope()
		for _, name := range scope.Names() {
			tn, ok := scope.Lookup(name).(*types.TypeName)
			if !ok {
				continue
			}
			st, ok := tn.Type().Underlying().(*types.Struct)
			if !ok {
				continue
			}
			if c.W.structAssignedOutside(tn.Type(), path) {
				continue
			}
			for i := 0; i < st.NumFields(); i++ {
				f := st.Field(i)
				if f.Exported() || f.Embedded() {
					continue
				}
				if _, nested := under(f.Type()).(*types.Struct); nested {
					continue
				}
				if _, arr := under(f.Type()).(*types.Array); arr {
					continue
				}
				// only fields whose heap is in use in this script matter
				hname := "Cell_" + c.R.TypeKey(f.Type())
				if _, used := c.R.heaps[hname]; !used {
					continue
				}
				c.protFields = append(c.protFields, protField{fid: c.R.FieldID(tn.Type(), i), heap: hname, pkg: path})
			}
		}
	}
	sort.Slice(c.protFields, func(i, j int) bool { return c.protFields[i].fid < c.protFields[j].fid })
	return c.protFields
}

// structAssignedOutside: does any in-repo function outside pkgPath store a
// whole value of struct type t through a pointer (which would overwrite its
// unexported fields)?
func (w *World) structAssignedOutside(t types.Type, pkgPath string) bool {
	key := types.TypeString(t, nil)
	w.assignMu.Lock()
	defer w.assignMu.Unlock()
	if w.assignedOutside == nil {
		w.assignedOutside = map[string]bool{}
		for _, fn := range w.Funcs {
			if !InRepo(fn) {
				continue
			}
			p := PkgOfFunc(fn)
			if p == nil {
				continue
			}
			for _, b := range fn.Blocks {
				for _, in := range b.Instrs {
					st, ok := in.(*ssa.Store)
					if !ok {
						continue
					}
					vt := st.Val.Type()
					n, ok := types.Unalias(vt).(*types.Named)
					if !ok {
						continue
					}
					if _, isStruct := n.Underlying().(*types.Struct); !isStruct {
						continue
					}
					if n.Obj().Pkg() != nil && n.Obj().Pkg().Path() != p.Path() {
						// a store into a local (Alloc) of this function is harmless
						if _, local := st.Addr.(*ssa.Alloc); local {
							continue
						}
						w.assignedOutside[types.TypeString(n, nil)] = true
					}
				}
			}
		}
	}
	return w.assignedOutside[key]
}

// keepEncapsulated: after a callee havoc, unexported fields of structs whose
// package the callee cannot reach keep their value.
func (c *Ctx) keepEncapsulated(st *State, before map[string]T, ccs []*ssa.CallCommon) {
	c.keepEncapsulatedExcept(st, before, ccs, nil)
}

// keepEncapsulatedExcept: as keepEncapsulated, skipping heaps in except (heaps
// the enclosing loop body writes itself).
func (c *Ctx) keepEncapsulatedExcept(st *State, before map[string]T, ccs []*ssa.CallCommon, except map[string]bool) {
	reach := map[string]bool{}
	for _, cc := range ccs {
		for p := range c.reachablePkgs(cc) {
			reach[p] = true
		}
	}
	if reach["*"] {
		return
	}
	byHeap := map[string][]int{}
	for _, pf := range c.protectedFieldList() {
		if !reach[pf.pkg] {
			byHeap[pf.heap] = append(byHeap[pf.heap], pf.fid)
		}
	}
	var hs []string
	for h := range byHeap {
		hs = append(hs, h)
	}
	sort.Strings(hs)
	// maps whose type mentions an unexported type of an unreachable package
	// cannot even be named by the callee: their contents are untouched
	for _, h := range c.R.heapOrder {
		if !(strings.HasPrefix(h, "MDom_") || strings.HasPrefix(h, "MVal_")) || except[h] {
			continue
		}
		pkg := c.R.mapPkg[h]
		if pkg == "" || reach[pkg] {
			continue
		}
		old, ok := before[h]
		cur, ok2 := st.heaps[h]
		if ok && ok2 && old.S != cur.S {
			c.emit("(assert (= %s %s))", cur.S, old.S)
		}
	}
	for _, h := range hs {
		if except[h] {
			continue
		}
		old, ok := before[h]
		cur, ok2 := st.heaps[h]
		if !ok || !ok2 || old.S == cur.S {
			continue
		}
		var alts []string
		for _, fid := range byHeap[h] {
			alts = append(alts, fmt.Sprintf("(= (rfid a) %d)", fid))
		}
		c.emit("(assert (forall ((a Ref)) (! (=> (and ((_ is rfld) a) (or %s)) (= (select %s a) (select %s a))) :pattern ((select %s a)))))",
			strings.Join(alts, " "), cur.S, old.S, cur.S)
		c.encapsUsed = true
	}
}
