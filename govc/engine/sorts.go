package engine

import (
	"os"
	"fmt"
	"go/types"
	"sort"
	"strings"
)

// T is an SMT term with its sort.
type T struct {
	S    string
	Sort string
}

func (t T) String() string { return t.S }

var (
	True  = T{"true", "Bool"}
	False = T{"false", "Bool"}
	Nil   = T{"rnil", "Ref"}
)

func app(sort, f string, args ...T) T {
	var b strings.Builder
	b.WriteByte('(')
	b.WriteString(f)
	for _, a := range args {
		b.WriteByte(' ')
		b.WriteString(a.S)
	}
	b.WriteByte(')')
	return T{b.String(), sort}
}

func IntLit(n int64) T {
	if n < 0 {
		return T{fmt.Sprintf("(- %d)", -n), "Int"}
	}
	return T{fmt.Sprintf("%d", n), "Int"}
}

func And(ts ...T) T {
	var xs []T
	for _, t := range ts {
		if t.S == "true" {
			continue
		}
		if t.S == "false" {
			return False
		}
		xs = append(xs, t)
	}
	if len(xs) == 0 {
		return True
	}
	if len(xs) == 1 {
		return xs[0]
	}
	return app("Bool", "and", xs...)
}

func Or(ts ...T) T {
	var xs []T
	for _, t := range ts {
		if t.S == "false" {
			continue
		}
		if t.S == "true" {
			return True
		}
		xs = append(xs, t)
	}
	if len(xs) == 0 {
		return False
	}
	if len(xs) == 1 {
		return xs[0]
	}
	return app("Bool", "or", xs...)
}

func Not(t T) T {
	if t.S == "true" {
		return False
	}
	if t.S == "false" {
		return True
	}
	if strings.HasPrefix(t.S, "(not ") {
		return T{t.S[5 : len(t.S)-1], "Bool"}
	}
	return app("Bool", "not", t)
}

func Implies(a, b T) T {
	if a.S == "true" {
		return b
	}
	if a.S == "false" || b.S == "true" {
		return True
	}
	return app("Bool", "=>", a, b)
}

func Eq(a, b T) T {
	if a.S == b.S {
		return True
	}
	return app("Bool", "=", a, b)
}

func Ite(c, a, b T) T {
	if c.S == "true" {
		return a
	}
	if c.S == "false" {
		return b
	}
	if a.S == b.S {
		return a
	}
	return app(a.Sort, "ite", c, a, b)
}

func Select(arr, i T) T {
	return app(arrayRange(arr.Sort), "select", arr, i)
}

func Store(arr, i, v T) T {
	return app(arr.Sort, "store", arr, i, v)
}

func ArraySort(dom, rng string) string { return "(Array " + dom + " " + rng + ")" }

// arrayRange returns the range sort of "(Array D R)".
func arrayRange(s string) string {
	d, r := splitArray(s)
	_ = d
	return r
}

func splitArray(s string) (string, string) {
	if !strings.HasPrefix(s, "(Array ") {
		return "", ""
	}
	inner := s[7 : len(s)-1]
	// first sort token
	depth := 0
	for i := 0; i < len(inner); i++ {
		switch inner[i] {
		case '(':
			depth++
		case ')':
			depth--
		case ' ':
			if depth == 0 {
				return inner[:i], inner[i+1:]
			}
		}
	}
	return inner, ""
}

func sortID(s string) string {
	r := strings.NewReplacer("(", "", ")", "", " ", "_")
	return r.Replace(s)
}

// ---- address / slice / iface constructors ---------------------------------

func Fld(base T, fid int) T { return app("Ref", "rfld", base, IntLit(int64(fid))) }
func Idx(arr, i T) T        { return app("Ref", "ridx", arr, i) }

// Elem is the address of element i of slice s (an uninterpreted name for
// ridx(sarr s, soff s + i) so that quantifier patterns can match on it).
func Elem(s, i T) T { return app("Ref", "selem", s, i) }

func MkSlice(arr, off, ln, cp T) T { return app("Slice", "mkslice", arr, off, ln, cp) }
func SArr(s T) T                   { return app("Ref", "sarr", s) }
func SOff(s T) T                   { return app("Int", "soff", s) }
func SLen(s T) T                   { return app("Int", "slen", s) }
func SCap(s T) T                   { return app("Int", "scap", s) }

var NilSlice = T{"(mkslice rnil 0 0 0)", "Slice"}
var NilIface = T{"inil", "Iface"}

func MkIface(tag T, box T) T { return app("Iface", "imk", tag, box) }
func ITyp(x T) T             { return app("Int", "ityp", x) }
func IBox(x T) T             { return app("Box", "ibox", x) }
func IsNilIface(x T) T       { return app("Bool", "(_ is inil)", x) }

// ---- per-script type registry ----------------------------------------------

type structInfo struct {
	Name   string // SMT sort name
	Key    string
	Typ    *types.Struct
	Fields []fieldInfo
}

type fieldInfo struct {
	Name string
	Sort string
	Typ  types.Type
	FID  int
}

// Reg is the per-script registry of sorts, ids, literals and heaps.
type Reg struct {
	structs     map[string]*structInfo // key: struct identity string
	structOrder []*structInfo
	fieldIDs    map[string]int
	typeIDs     map[string]int
	typeByID    map[int]types.Type
	boxes       map[string]string // sort -> ctor
	boxOrder    []string
	strLits     map[string]string
	strOrder    []string
	heaps       map[string]string // heap name -> sort
	heapOrder   []string
	ufuns       map[string]string // name -> declaration
	ufunOrder   []string
	axioms      []string
	useCard     map[string]bool // key sort -> card function needed
	mapPkg      map[string]string
	anon        int
}

func NewReg() *Reg {
	return &Reg{structs: map[string]*structInfo{}, fieldIDs: map[string]int{}, typeIDs: map[string]int{}, typeByID: map[int]types.Type{},
		boxes: map[string]string{}, strLits: map[string]string{}, heaps: map[string]string{}, ufuns: map[string]string{}, useCard: map[string]bool{}, mapPkg: map[string]string{}}
}

func under(t types.Type) types.Type {
	for {
		switch x := t.(type) {
		case *types.Named:
			t = x.Underlying()
		case *types.Alias:
			t = types.Unalias(x)
		default:
			return t
		}
	}
}

// SortOf maps a Go type to its SMT sort.
func (r *Reg) SortOf(t types.Type) string {
	switch u := under(t).(type) {
	case *types.Basic:
		switch {
		case u.Info()&types.IsBoolean != 0:
			return "Bool"
		case u.Info()&types.IsInteger != 0:
			return "Int"
		case u.Info()&types.IsFloat != 0:
			return "Real"
		case u.Info()&types.IsString != 0:
			return "Str"
		case u.Kind() == types.UnsafePointer:
			return "Ref"
		case u.Kind() == types.UntypedNil:
			return "Ref"
		}
		return "Opaque"
	case *types.Pointer, *types.Map, *types.Chan, *types.Signature:
		return "Ref"
	case *types.Slice:
		return "Slice"
	case *types.Interface:
		return "Iface"
	case *types.Struct:
		return r.structOf(t).Name
	case *types.Array:
		return ArraySort("Int", r.SortOf(u.Elem()))
	case *types.Tuple:
		return "Tuple"
	}
	return "Opaque"
}

func sanitize(s string) string {
	var b strings.Builder
	for _, c := range s {
		switch {
		case c >= 'a' && c <= 'z', c >= 'A' && c <= 'Z', c >= '0' && c <= '9', c == '_':
			b.WriteRune(c)
		case c == '.' || c == '/':
			b.WriteByte('_')
		}
	}
	return b.String()
}

func (r *Reg) structOf(t types.Type) *structInfo {
	st := under(t).(*types.Struct)
	key := types.TypeString(st, nil)
	name := ""
	if n, ok := types.Unalias(t).(*types.Named); ok {
		// distinct named types with identical underlying structs get distinct
		// sorts (conversion between them is field-wise).
		key = types.TypeString(n, nil) + "|" + key
		name = "S_" + sanitize(shortenType(types.TypeString(n, nil)))
	}
	if si, ok := r.structs[key]; ok {
		return si
	}
	if name == "" {
		r.anon++
		name = fmt.Sprintf("S_anon%d", r.anon)
	}
	for _, o := range r.structOrder {
		if o.Name == name {
			r.anon++
			name = fmt.Sprintf("%s_%d", name, r.anon)
		}
	}
	si := &structInfo{Name: name, Key: key, Typ: st}
	r.structs[key] = si
	for i := 0; i < st.NumFields(); i++ {
		f := st.Field(i)
		si.Fields = append(si.Fields, fieldInfo{Name: f.Name(), Sort: r.SortOf(f.Type()), Typ: f.Type(), FID: r.fieldID(st, i)})
	}
	r.structOrder = append(r.structOrder, si)
	return si
}

// fieldID is a globally unique id for field i of struct type st (by identity
// of the underlying struct's textual form, so named types sharing an
// underlying struct share field addresses).
func (r *Reg) fieldID(st *types.Struct, i int) int {
	k := fmt.Sprintf("%s#%d", types.TypeString(st, nil), i)
	if id, ok := r.fieldIDs[k]; ok {
		return id
	}
	id := len(r.fieldIDs) + 1
	r.fieldIDs[k] = id
	return id
}

func (r *Reg) FieldID(t types.Type, i int) int {
	return r.fieldID(under(t).(*types.Struct), i)
}

// TypeID returns the run-time type tag of a concrete Go type.
func (r *Reg) TypeID(t types.Type) int {
	k := types.TypeString(types.Unalias(t), nil)
	if id, ok := r.typeIDs[k]; ok {
		return id
	}
	id := len(r.typeIDs) + 1
	r.typeIDs[k] = id
	r.typeByID[id] = t
	return id
}

func (r *Reg) BoxCtor(sort string) string {
	if c, ok := r.boxes[sort]; ok {
		return c
	}
	c := "b_" + sortID(sort)
	r.boxes[sort] = c
	r.boxOrder = append(r.boxOrder, sort)
	return c
}

func (r *Reg) Box(v T) T   { return app("Box", r.BoxCtor(v.Sort), v) }
func (r *Reg) Unbox(b T, sort string) T {
	return app(sort, "un"+r.BoxCtor(sort), b)
}

// StrLit returns the constant for a string literal.
func (r *Reg) StrLit(s string) T {
	if c, ok := r.strLits[s]; ok {
		return T{c, "Str"}
	}
	c := fmt.Sprintf("str%d", len(r.strLits))
	if s == "" {
		c = "strEmpty"
	}
	r.strLits[s] = c
	r.strOrder = append(r.strOrder, s)
	return T{c, "Str"}
}

// Heap registers (once) and returns the base name of a heap array.
func (r *Reg) Heap(name, sort string) string {
	if _, ok := r.heaps[name]; !ok {
		r.heaps[name] = sort
		r.heapOrder = append(r.heapOrder, name)
	}
	return name
}

// TypeKey is the name of the heap component a memory cell of Go type t lives
// in. Go's type system guarantees that a cell is only ever accessed at its own
// type (unsafe and pointer conversions between identical underlying types
// aside, which is why named non-struct types are keyed by their underlying
// type), so cells with different keys cannot alias (Burstall-Bornat).
func (r *Reg) TypeKey(t types.Type) string {
	switch u := types.Unalias(t).(type) {
	case *types.Named:
		switch u.Underlying().(type) {
		case *types.Struct:
			return sanitize(shortenType(types.TypeString(u, nil)))
		case *types.Interface:
			if u.Underlying().(*types.Interface).NumMethods() == 0 {
				return "any"
			}
			return sanitize(shortenType(types.TypeString(u, nil)))
		}
		return r.TypeKey(u.Underlying())
	case *types.Basic:
		switch u.Kind() {
		case types.UntypedNil, types.UnsafePointer:
			return "ptr"
		}
		return u.Name()
	case *types.Pointer:
		return "P" + r.TypeKey(u.Elem())
	case *types.Slice:
		return "S" + r.TypeKey(u.Elem())
	case *types.Array:
		return fmt.Sprintf("A%d%s", u.Len(), r.TypeKey(u.Elem()))
	case *types.Map:
		return "M" + r.TypeKey(u.Key()) + "_" + r.TypeKey(u.Elem())
	case *types.Chan:
		return "C" + r.TypeKey(u.Elem())
	case *types.Signature:
		return "func"
	case *types.Interface:
		if u.NumMethods() == 0 {
			return "any"
		}
		return "iface"
	case *types.Struct:
		return r.structOf(t).Name
	}
	return "opaque"
}

// CellHeapT: the heap of cells of Go type t.
func (r *Reg) CellHeapT(t types.Type) string {
	return r.Heap("Cell_"+r.TypeKey(t), ArraySort("Ref", r.SortOf(t)))
}

// MDomHeapT / MValHeapT: key presence and values of maps of Go type mt.
// unexportedPkg returns the in-repo package path of an unexported named type
// mentioned by t (pointer/slice/map element positions), or "".
func unexportedPkg(t types.Type, depth int) string {
	if depth > 6 {
		return ""
	}
	switch u := types.Unalias(t).(type) {
	case *types.Named:
		if o := u.Obj(); o != nil && o.Pkg() != nil && !o.Exported() && strings.HasPrefix(o.Pkg().Path(), ModPath) {
			return o.Pkg().Path()
		}
		return ""
	case *types.Pointer:
		return unexportedPkg(u.Elem(), depth+1)
	case *types.Slice:
		return unexportedPkg(u.Elem(), depth+1)
	case *types.Map:
		if p := unexportedPkg(u.Key(), depth+1); p != "" {
			return p
		}
		return unexportedPkg(u.Elem(), depth+1)
	}
	return ""
}

func (r *Reg) MDomHeapT(mt *types.Map) string {
	if p := unexportedPkg(mt, 0); p != "" {
		r.mapPkg["MDom_"+r.TypeKey(mt)] = p
		r.mapPkg["MVal_"+r.TypeKey(mt)] = p
	}
	return r.Heap("MDom_"+r.TypeKey(mt), ArraySort("Ref", ArraySort(r.SortOf(mt.Key()), "Bool")))
}
func (r *Reg) MValHeapT(mt *types.Map) string {
	return r.Heap("MVal_"+r.TypeKey(mt), ArraySort("Ref", ArraySort(r.SortOf(mt.Key()), r.SortOf(mt.Elem()))))
}
func (r *Reg) VisitedHeap(k string) string {
	return r.Heap("Visited_"+sortID(k), ArraySort("Ref", ArraySort(k, "Bool")))
}

const (
	HAlloc = "Alloc"
	HLockW = "LockW"
	HLockR = "LockR"
	HDefW  = "DeferW"
	HDefR  = "DeferR"
)

func (r *Reg) UFun(name, decl string) {
	if _, ok := r.ufuns[name]; !ok {
		r.ufuns[name] = decl
		r.ufunOrder = append(r.ufunOrder, name)
	}
}

func (r *Reg) Card(keySort string) string {
	r.useCard[keySort] = true
	return "card_" + sortID(keySort)
}

// Zero returns the zero value of a Go type.
func (r *Reg) Zero(t types.Type) T {
	s := r.SortOf(t)
	switch u := under(t).(type) {
	case *types.Struct:
		si := r.structOf(t)
		if len(si.Fields) == 0 {
			return T{"mk_" + si.Name, si.Name}
		}
		var args []T
		for _, f := range si.Fields {
			args = append(args, r.Zero(f.Typ))
		}
		return app(si.Name, "mk_"+si.Name, args...)
	case *types.Array:
		es := r.SortOf(u.Elem())
		return T{"((as const " + ArraySort("Int", es) + ") " + r.Zero(u.Elem()).S + ")", s}
	}
	return r.zeroOfSort(s)
}

func (r *Reg) zeroOfSort(s string) T {
	switch s {
	case "Int":
		return IntLit(0)
	case "Bool":
		return False
	case "Real":
		return T{"0.0", "Real"}
	case "Str":
		return r.StrLit("")
	case "Ref":
		return Nil
	case "Slice":
		return NilSlice
	case "Iface":
		return NilIface
	case "Opaque":
		return T{"opaque0", "Opaque"}
	}
	return T{"(as zero_" + sortID(s) + " " + s + ")", s}
}

// Preamble renders all declarations the script needs.
func (r *Reg) Preamble() string {
	var b strings.Builder
	b.WriteString("(set-option :produce-models true)\n(set-logic ALL)\n")
	b.WriteString("(declare-sort Str 0)\n(declare-sort Opaque 0)\n(declare-const opaque0 Opaque)\n")
	// one mutually recursive datatype block
	var names, defs []string
	names = append(names, "(Ref 0)", "(Slice 0)", "(Iface 0)", "(Box 0)")
	defs = append(defs,
		"((rnil) (robj (rid Int)) (rfld (rbase Ref) (rfid Int)) (ridx (rarr Ref) (riidx Int)))",
		"((mkslice (sarr Ref) (soff Int) (slen Int) (scap Int)))",
		"((inil) (imk (ityp Int) (ibox Box)))")
	// Box: struct sorts referenced in boxes must be declared: make sure all
	// box sorts that are structs are in structOrder already (they are, since
	// SortOf created them).
	box := "((bnil)"
	for _, s := range r.boxOrder {
		c := r.boxes[s]
		box += fmt.Sprintf(" (%s (un%s %s))", c, c, s)
	}
	box += ")"
	defs = append(defs, box)
	for _, si := range r.structOrder {
		names = append(names, "("+si.Name+" 0)")
		d := "((mk_" + si.Name
		for i, f := range si.Fields {
			d += fmt.Sprintf(" (%s_f%d %s)", si.Name, i, f.Sort)
		}
		d += "))"
		defs = append(defs, d)
	}
	b.WriteString("(declare-datatypes (" + strings.Join(names, " ") + ") (" + strings.Join(defs, "\n  ") + "))\n")
	b.WriteString("(declare-fun strlen (Str) Int)\n(assert (forall ((s Str)) (! (>= (strlen s) 0) :pattern ((strlen s)))))\n")
	b.WriteString("(declare-fun strcat (Str Str) Str)\n(declare-fun strlt (Str Str) Bool)\n")
	if _, ok := r.strLits[""]; !ok {
		r.StrLit("")
	}
	for _, s := range r.strOrder {
		fmt.Fprintf(&b, "(declare-const %s Str) ; %q\n(assert (= (strlen %s) %d))\n", r.strLits[s], trunc(s, 40), r.strLits[s], len(s))
	}
	if len(r.strOrder) > 1 {
		b.WriteString("(assert (distinct")
		for _, s := range r.strOrder {
			b.WriteString(" " + r.strLits[s])
		}
		b.WriteString("))\n")
	}
	b.WriteString("(assert (forall ((s Str)) (! (=> (= (strlen s) 0) (= s strEmpty)) :pattern ((strlen s)))))\n")
	b.WriteString("(assert (forall ((a Str) (b Str)) (! (= (strlen (strcat a b)) (+ (strlen a) (strlen b))) :pattern ((strcat a b)))))\n")
	ks := make([]string, 0, len(r.useCard))
	for k := range r.useCard {
		ks = append(ks, k)
	}
	sort.Strings(ks)
	for _, k := range ks {
		c := "card_" + sortID(k)
		as := ArraySort(k, "Bool")
		fmt.Fprintf(&b, "(declare-fun %s (%s) Int)\n", c, as)
		fmt.Fprintf(&b, "(assert (forall ((a %s)) (! (>= (%s a) 0) :pattern ((%s a)))))\n", as, c, c)
		fmt.Fprintf(&b, "(assert (forall ((a %s) (k %s)) (! (=> (select a k) (>= (%s a) 1)) :pattern ((select a k) (%s a)))))\n", as, k, c, c)
		fmt.Fprintf(&b, "(assert (forall ((a %s) (k %s)) (! (= (%s (store a k true)) (ite (select a k) (%s a) (+ (%s a) 1))) :pattern ((%s (store a k true))))))\n", as, k, c, c, c, c)
		fmt.Fprintf(&b, "(assert (forall ((a %s) (k %s)) (! (= (%s (store a k false)) (ite (select a k) (- (%s a) 1) (%s a))) :pattern ((%s (store a k false))))))\n", as, k, c, c, c, c)
		fmt.Fprintf(&b, "(assert (= (%s ((as const %s) false)) 0))\n", c, as)
		fmt.Fprintf(&b, "(assert (forall ((a %s)) (! (=> (= (%s a) 0) (= a ((as const %s) false))) :pattern ((%s a)))))\n", as, c, as, c)
		if os.Getenv("GOVC_NO_CARDW") != "" {
			continue
		}
		// a set with two or more elements has two distinct members (witness functions)
		fmt.Fprintf(&b, "(declare-fun %s_w1 (%s) %s)\n(declare-fun %s_w2 (%s) %s)\n", c, as, k, c, as, k)
		fmt.Fprintf(&b, "(assert (forall ((a %s)) (! (=> (>= (%s a) 2) (and (select a (%s_w1 a)) (select a (%s_w2 a)) (not (= (%s_w1 a) (%s_w2 a))))) :pattern ((%s a)))))\n", as, c, c, c, c, c, c)
		// a non-empty set has a member
		fmt.Fprintf(&b, "(assert (forall ((a %s)) (! (=> (>= (%s a) 1) (select a (%s_w1 a))) :pattern ((%s a)))))\n", as, c, c, c)
	}
	for _, n := range r.ufunOrder {
		b.WriteString(r.ufuns[n] + "\n")
	}
	return b.String()
}

// AxiomsText: registered axioms (facts about package-level variables, ...); they may
// mention the initial heaps, so they are emitted after the heap declarations.
func (r *Reg) AxiomsText() string {
	var b strings.Builder
	for _, a := range r.axioms {
		b.WriteString(a + "\n")
	}
	return b.String()
}

func trunc(s string, n int) string {
	if len(s) > n {
		return s[:n] + "..."
	}
	return s
}
