package engine

import (
	"fmt"
	"os"
	"os/exec"
	"path/filepath"
	"strings"
)

func init() { replayGens = append(replayGens, replayDecoder) }

var panicKinds = map[string]bool{"index": true, "type-assert": true, "nil-deref": true, "slice-bounds": true, "div-zero": true, "nil-map-write": true, "panic": true}

// overlayTest runs an injected in-package test against the real code.
func overlayTest(repo, pkgDir, harness, testName string, env []string, workDir string) (string, error) {
	os.MkdirAll(workDir, 0o755)
	ov := filepath.Join(workDir, "overlay.json")
	target := filepath.Join(repo, pkgDir, "zz_govc_replay_test.go")
	os.WriteFile(ov, []byte(fmt.Sprintf(`{"Replace": {%q: %q}}`, target, harness)), 0o644)
	cmd := exec.Command("go", "test", "-overlay", ov, "-vet=off", "-count=1", "-timeout", "120s", "-run", "^"+testName+"$", "-v", "./"+pkgDir)
	cmd.Dir = repo
	cmd.Env = append(os.Environ(), "GOFLAGS=-mod=mod", "GOPROXY=off", "GOSUMDB=off", "GOTOOLCHAIN=local")
	cmd.Env = append(cmd.Env, env...)
	out, err := cmd.CombinedOutput()
	return string(out), err
}

// replayDecoder: panic obligations inside package ovsdb are replayed by
// bounded enumeration of JSON documents against the real decoders.
func replayDecoder(w *World, verif, prop string, fr *FuncResult, o *Obligation, model string) (ReplayResult, bool) {
	base := o.Kind
	if i := strings.LastIndex(base, ">"); i >= 0 {
		base = base[i+1:]
	}
	if !panicKinds[base] || !strings.HasPrefix(o.Func, "ovsdb.") {
		return ReplayResult{}, false
	}
	if !strings.HasPrefix(o.Pos, "ovsdb/") {
		return ReplayResult{}, false
	}
	line := strings.TrimPrefix(o.Pos, "ovsdb/")
	src := filepath.Join(verif, "harness", "decoders_replay_test.go.txt")
	h := filepath.Join(verif, "work", prop, "replay_"+shortFile(o.Name)+"_test.go")
	b, err := os.ReadFile(src)
	if err != nil {
		return ReplayResult{Text: err.Error()}, true
	}
	os.MkdirAll(filepath.Dir(h), 0o755)
	os.WriteFile(h, b, 0o644)
	out, _ := overlayTest(w.Repo, "ovsdb", h, "TestGovcReplayDecoders", []string{"GOVC_REPLAY_LINE=" + line}, filepath.Join(verif, "work", prop, "ov_"+shortFile(o.Name)))
	var keep []string
	confirmed := false
	for _, ln := range strings.Split(out, "\n") {
		if strings.Contains(ln, "GOVC-REPLAY-CONFIRMED") {
			confirmed = true
			keep = append(keep, ln)
		} else if strings.HasPrefix(ln, "  at ") || strings.Contains(ln, "GOVC-REPLAY-NONE") {
			keep = append(keep, ln)
		}
	}
	txt := strings.Join(keep, "\n")
	if !confirmed && txt == "" {
		txt = trunc(out, 1500)
	}
	txt += fmt.Sprintf("\nre-run: cd /repo && GOVC_REPLAY_LINE=%s go test -overlay <overlay mapping ovsdb/zz_govc_replay_test.go to /verif/harness/decoders_replay_test.go.txt> -vet=off -run TestGovcReplayDecoders -v ./ovsdb", line)
	return ReplayResult{Confirmed: confirmed, Text: txt}, true
}

func init() { replayGens = append(replayGens, replayTransact) }

// replayTransact: panic obligations on the transaction path are replayed by
// submitting a corpus of syntactically valid but ill-formed operations to the
// real in-memory database (harness/inmemory_transact_crash_test.go.txt).
func replayTransact(w *World, verif, prop string, fr *FuncResult, o *Obligation, model string) (ReplayResult, bool) {
	base := o.Kind
	if i := strings.LastIndex(base, ">"); i >= 0 {
		base = base[i+1:]
	}
	if !panicKinds[base] && base != "pre" && base != "at-call" {
		return ReplayResult{}, false
	}
	if !(strings.HasPrefix(o.Func, "transaction.") || strings.HasPrefix(o.Func, "updates.mutate") || strings.HasPrefix(o.Func, "updates.(*ModelUpdates).add") ||
		strings.HasPrefix(o.Func, "ovsdb.OvsToNative") || strings.HasPrefix(o.Func, "ovsdb.ValidateMutation") || strings.HasPrefix(o.Func, "ovsdb.validateMutation")) {
		return ReplayResult{}, false
	}
	src := filepath.Join(verif, "harness", "inmemory_transact_crash_test.go.txt")
	out, _ := overlayTest(w.Repo, "database/inmemory", src, "TestGovcTransactCrash", nil, filepath.Join(verif, "work", prop, "ovt_"+shortFile(o.Name)))
	var keep []string
	confirmed := false
	for _, ln := range strings.Split(out, "\n") {
		if strings.Contains(ln, "GOVC-REPLAY-CONFIRMED") {
			confirmed = true
			keep = append(keep, strings.TrimSpace(ln))
		}
	}
	txt := strings.Join(keep, "\n")
	if !confirmed {
		txt = "corpus of ill-formed transact operations did not crash the real code\n" + trunc(out, 600)
	}
	txt += "\nre-run: go test -overlay <database/inmemory/zz_govc_replay_test.go -> /verif/harness/inmemory_transact_crash_test.go.txt> -vet=off -run TestGovcTransactCrash -v ./database/inmemory"
	return ReplayResult{Confirmed: confirmed, Text: txt}, true
}
