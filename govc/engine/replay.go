package engine

// ReplayResult is the outcome of replaying a counterexample on the real code.
type ReplayResult struct {
	Confirmed bool
	Text      string
}

// replayFor turns a solver model into a test of the real code where a replay
// generator exists for the obligation's family (see replay_*.go).
func replayFor(w *World, verif, prop string, fr *FuncResult, o *Obligation, model string) ReplayResult {
	for _, g := range replayGens {
		if r, ok := g(w, verif, prop, fr, o, model); ok {
			return r
		}
	}
	return ReplayResult{}
}

type replayGen func(w *World, verif, prop string, fr *FuncResult, o *Obligation, model string) (ReplayResult, bool)

var replayGens []replayGen
