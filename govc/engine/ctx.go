package engine

import (
	"os"
	"fmt"
	"go/token"
	"go/types"
	"sort"
	"strings"

	"golang.org/x/tools/go/ssa"
)

// State is a symbolic program state: a path condition and the current
// version of every heap array.
type State struct {
	pc    T
	heaps map[string]T
}

func (s *State) clone() *State {
	h := make(map[string]T, len(s.heaps))
	for k, v := range s.heaps {
		h[k] = v
	}
	return &State{pc: s.pc, heaps: h}
}

// Obligation is one proof obligation (one check-sat).
type Obligation struct {
	Name   string
	Kind   string
	Func   string
	Pos    string
	Detail string
	Index  int // ordinal of the check-sat in the script
	Cover  bool // a reachability cover: expected sat/unknown, "unsat" is a vacuity alarm
	Result string
	Solver string
	TimeMs int64
	Model  string
	// query text to re-run alone for a model: assertion inside push/pop
	Assert string
	Offset int // byte offset in body where the obligation was emitted
}

type closureDesc struct {
	fn       *ssa.Function
	bindings []T
}

type deferRec struct {
	guard T
	call  *ssa.CallCommon
	fr    *frame
	instr ssa.Instruction
}

// Options for one function check.
type Options struct {
	Safety       bool // emit panic-freedom obligations
	LockBalance  bool
	Covers       bool
	AutoInline   int  // depth of automatic inlining of uncontracted in-repo callees
	RecvNonNil   bool // method receivers of pointer type are non-nil (caller obligation)
	JSONShape    bool // assume json.Unmarshal shape for interface{} values (see DESIGN 3.4)
	MaxTerms     int
}

// Ctx is the generation context for one top-level function.
type Ctx struct {
	W    *World
	R    *Reg
	Top  *ssa.Function
	Opt  Options
	buf  strings.Builder
	n    int
	scan bool
	Obls []*Obligation

	closures map[string]*closureDesc
	globals  map[string]bool
	// loop write sets from pass 1, keyed by frameKey+head block index
	loopWrites map[string]map[string]bool
	loopAll    map[string]bool
	active     []string // stack of active loop keys (writes are recorded in all)

	kindCount map[string]int
	Unsupported []string
	Defaults    map[string]bool // callees that received a default contract
	Unverified  map[string]bool // in-repo callees havocked
	Inlined     map[string]bool
	Trusted     map[string]bool
	UsedContracts map[string]bool
	AssumedJSON bool
	inlineDepth int
	prefix      string // obligation name prefix inside inlined calls
	entry       *State
	allocs      []T
	ifaceLoads  []T
	frameSeq    int
	implTypes   map[string]types.Type
	topFrame    *frame
	useHashable bool
	stable      []stableCell
	atCallSeen  map[string]int
	iterSeq     int
	mayCallMemo map[string]bool
	trackedByKey map[string]string
	loopCallees    map[string][]*ssa.CallCommon
	loopAllUnknown map[string]bool
	lastCallName   string // debugging: the call being executed
	inCalleeHavoc  bool
	localObjs      []localObj
	esc            *escInfo
	hasPrivate     bool
	protFields     []protField
	encapsUsed     bool
	inAllHavoc     bool
	mapHeapPkg     map[string]string // map heap -> in-repo package owning an unexported type it mentions
	rawHavoc       bool // loop-head havoc: callers restore what the loop body cannot write
}

// stableCell is a memory cell no callee can write: a non-escaping local or a
// captured variable of the closure under verification.
type stableCell struct {
	addr   T
	typ    types.Type
	stores []ssa.Instruction // direct stores to the cell (incl. through closures)
}

// snapshotStable records the current value of every leaf of the stable cells
// selected by keep; restoreStable asserts the (havocked) heaps still hold them.
type stableSnap struct {
	heap string
	addr T
	val  T
}

func (c *Ctx) snapshotStable(st *State, keep func(sc *stableCell) bool) []stableSnap {
	var out []stableSnap
	var leaves func(a T, t types.Type)
	leaves = func(a T, t types.Type) {
		switch u := under(t).(type) {
		case *types.Struct:
			for i := 0; i < u.NumFields(); i++ {
				leaves(Fld(a, c.R.FieldID(t, i)), u.Field(i).Type())
			}
		case *types.Array:
			for i := int64(0); i < u.Len() && i < 8; i++ {
				leaves(Idx(a, IntLit(i)), u.Elem())
			}
		default:
			h := c.R.CellHeapT(t)
			out = append(out, stableSnap{h, a, Select(c.getHeap(st, h), a)})
		}
	}
	for i := range c.stable {
		if keep == nil || keep(&c.stable[i]) {
			leaves(c.stable[i].addr, c.stable[i].typ)
		}
	}
	return out
}

func (c *Ctx) restoreStable(st *State, snaps []stableSnap) {
	for _, k := range snaps {
		if cur, ok := st.heaps[k.heap]; ok && cur.S != "" {
			c.emit("(assert (= (select %s %s) %s))", cur.S, k.addr.S, k.val.S)
		}
	}
}

func NewCtx(w *World, fn *ssa.Function, opt Options) *Ctx {
	c := &Ctx{W: w, R: NewReg(), Top: fn, Opt: opt}
	c.reset()
	return c
}

func (c *Ctx) reset() {
	c.buf.Reset()
	c.n = 0
	c.Obls = nil
	c.closures = map[string]*closureDesc{}
	c.globals = map[string]bool{}
	c.active = nil
	c.kindCount = map[string]int{}
	c.Unsupported = nil
	c.Defaults = map[string]bool{}
	c.Unverified = map[string]bool{}
	c.Inlined = map[string]bool{}
	c.Trusted = map[string]bool{}
	c.UsedContracts = map[string]bool{}
	c.inlineDepth = 0
	c.prefix = ""
	c.allocs = nil
	c.stable = nil
	c.localObjs = nil
	c.protFields = nil
	if c.esc == nil {
		c.esc = newEscInfo()
	}
	c.atCallSeen = map[string]int{}
	c.ifaceLoads = nil
	c.frameSeq = 0
	c.iterSeq = 0
	if c.mayCallMemo == nil {
		c.mayCallMemo = map[string]bool{}
	}
	if c.trackedByKey == nil {
		c.trackedByKey = map[string]string{}
	}
	if c.mapHeapPkg == nil {
		c.mapHeapPkg = map[string]string{}
	}
	if c.implTypes == nil {
		c.implTypes = map[string]types.Type{}
	}
}

func (c *Ctx) unsupported(format string, args ...interface{}) {
	s := fmt.Sprintf(format, args...)
	for _, u := range c.Unsupported {
		if u == s {
			return
		}
	}
	c.Unsupported = append(c.Unsupported, s)
}

func (c *Ctx) emit(format string, args ...interface{}) {
	fmt.Fprintf(&c.buf, format, args...)
	c.buf.WriteByte('\n')
}

// fresh declares a new constant.
func (c *Ctx) fresh(hint, sort string) T {
	c.n++
	name := fmt.Sprintf("%s_%d", sanitize(hint), c.n)
	if sort == "Tuple" {
		panic("fresh tuple")
	}
	c.emit("(declare-const %s %s)", name, sort)
	return T{name, sort}
}

// name binds a term to a fresh constant (keeps the formula a DAG).
func (c *Ctx) name(hint string, t T) T {
	if len(t.S) < 24 && !strings.ContainsAny(t.S, " ") {
		return t
	}
	k := c.fresh(hint, t.Sort)
	c.emit("(assert (= %s %s))", k.S, t.S)
	return k
}

func (c *Ctx) assume(st *State, cond T) {
	if cond.S == "true" {
		return
	}
	c.emit("(assert %s)", Implies(st.pc, cond).S)
}

func (c *Ctx) comment(format string, args ...interface{}) {
	c.emit("; "+format, args...)
}

// oblige emits one obligation: under st.pc, cond must hold.
func (c *Ctx) oblige(st *State, kind, detail string, cond T, pos token.Pos) *Obligation {
	if cond.S == "true" {
		// still count trivially discharged obligations? no: nothing to prove.
		return nil
	}
	c.kindCount[c.prefix+kind]++
	o := &Obligation{
		Kind: kind, Func: ShortName(c.Top), Pos: c.W.Pos(pos), Detail: detail,
		Name: fmt.Sprintf("%s/%s%s#%d[%s]", ShortName(c.Top), c.prefix, kind, c.kindCount[c.prefix+kind], detail),
	}
	o.Index = len(c.Obls)
	o.Assert = And(st.pc, Not(cond)).S
	o.Offset = c.buf.Len()
	c.Obls = append(c.Obls, o)
	c.emit("(push 1) ; OBL %d %s", o.Index, o.Name)
	c.emit("(assert %s)", o.Assert)
	c.emit("(check-sat)")
	c.emit("(pop 1)")
	c.assume(st, cond)
	return o
}

// cover emits a reachability cover (expected satisfiable).
func (c *Ctx) cover(st *State, detail string, pos token.Pos) {
	if !c.Opt.Covers {
		return
	}
	c.kindCount["cover"]++
	o := &Obligation{Kind: "cover", Cover: true, Func: ShortName(c.Top), Pos: c.W.Pos(pos), Detail: detail,
		Name: fmt.Sprintf("%s/cover#%d[%s]", ShortName(c.Top), c.kindCount["cover"], detail)}
	o.Index = len(c.Obls)
	o.Assert = st.pc.S
	o.Offset = c.buf.Len()
	c.Obls = append(c.Obls, o)
	c.emit("(push 1) ; COVER %d %s", o.Index, o.Name)
	c.emit("(assert %s)", o.Assert)
	c.emit("(check-sat)")
	c.emit("(pop 1)")
}

// ---- heaps ------------------------------------------------------------------

func (c *Ctx) heapSortOf(name string) string { return c.R.heaps[name] }

func (c *Ctx) getHeap(st *State, name string) T {
	if h, ok := st.heaps[name]; ok {
		return h
	}
	sortS := c.R.heaps[name]
	if sortS == "" {
		panic("unregistered heap " + name)
	}
	if !c.scan {
		c.unsupported("heap %s first seen in pass 2", name)
	}
	h := T{name + "_0", sortS}
	st.heaps[name] = h
	return h
}

func (c *Ctx) setHeap(st *State, name string, v T) {
	st.heaps[name] = c.name(name, v)
	if c.scan {
		for _, k := range c.active {
			m := c.loopWrites[k]
			if m == nil {
				m = map[string]bool{}
				c.loopWrites[k] = m
			}
			m[name] = true
		}
	}
}

func (c *Ctx) havocHeap(st *State, name string) {
	sortS := c.R.heaps[name]
	st.heaps[name] = c.fresh(name, sortS)
	if c.scan && !c.inAllHavoc {
		for _, k := range c.active {
			m := c.loopWrites[k]
			if m == nil {
				m = map[string]bool{}
				c.loopWrites[k] = m
			}
			m[name] = true
		}
	}
}

// havocAllCallee is havocAll for a call whose callee is known: ghost call
// counters of functions the callee cannot reach keep their value.
func (c *Ctx) havocAllCallee(st *State, cc *ssa.CallCommon) {
	c.havocAllCallees(st, []*ssa.CallCommon{cc})
}

// havocAllCallees: as havocAll, for the union of the effects of known callees.
func (c *Ctx) havocAllCallees(st *State, ccs []*ssa.CallCommon) {
	if c.scan {
		for _, k := range c.active {
			c.loopCallees[k] = append(c.loopCallees[k], ccs...)
		}
	}
	keep := map[string]T{}
	for _, n := range c.R.heapOrder {
		if !strings.HasPrefix(n, "Cnt_") && !strings.HasPrefix(n, "Last_") && !strings.HasPrefix(n, "CntFail_") {
			continue
		}
		key := strings.TrimPrefix(strings.TrimPrefix(strings.TrimPrefix(n, "CntFail_"), "Cnt_"), "Last_")
		tracked := c.trackedByKey[key]
		if tracked == "" {
			// a traced function that has not been called (yet): resolve its name from the contract
			if ct := c.W.Contracts[ShortName(c.Top)]; ct != nil {
				for nm := range ct.Trace {
					if sanitize(nm) == key {
						tracked = nm
						c.trackedByKey[key] = nm
					}
				}
			}
		}
		reach := tracked == ""
		for _, cc := range ccs {
			if tracked != "" && c.mayReach(cc, tracked) {
				reach = true
			}
		}
		if os.Getenv("GOVC_DEBUG") != "" && reach && !c.scan {
			var nms []string
			for _, cc := range ccs {
				nms = append(nms, calleeName(cc))
			}
			fmt.Fprintf(os.Stderr, "[counter-lost] %s tracked=%q callees=%v\n", n, tracked, nms)
		}
		if !reach {
			keep[n] = c.getHeap(st, n)
		}
	}
	var before map[string]T
	if !c.rawHavoc && !c.scan {
		before = make(map[string]T, len(st.heaps))
		for k, v := range st.heaps {
			before[k] = v
		}
	}
	c.inCalleeHavoc = true
	c.havocAll(st)
	c.inCalleeHavoc = false
	if before != nil {
		c.keepEncapsulated(st, before, ccs)
	}
	for n, v := range keep {
		st.heaps[n] = v
	}
}

func (c *Ctx) havocAll(st *State) {
	if c.scan {
		for _, k := range c.active {
			c.loopAll[k] = true
			if !c.inCalleeHavoc {
				if os.Getenv("GOVC_DEBUG") != "" && !c.loopAllUnknown[k] {
					fmt.Fprintf(os.Stderr, "[loop-havoc-all] %s: %s\n", k, c.lastCallName)
				}
				c.loopAllUnknown[k] = true
			}
		}
	}
	if !c.rawHavoc {
		snaps := c.snapshotStable(st, nil)
		before := make(map[string]T, len(st.heaps))
		for k, v := range st.heaps {
			before[k] = v
		}
		defer func() {
			c.restoreStable(st, snaps)
			c.keepLocalObjs(st, before)
			c.keepPrivate(st, before)
		}()
	}
	c.inAllHavoc = true
	defer func() { c.inAllHavoc = false }()
	names := append([]string(nil), c.R.heapOrder...)
	for _, n := range names {
		if n == HAlloc {
			// allocation only grows
			old := c.getHeap(st, n)
			c.havocHeap(st, n)
			nw := st.heaps[n]
			c.emit("(assert (forall ((a Ref)) (! (=> (select %s a) (select %s a)) :pattern ((select %s a)))))", old.S, nw.S, nw.S)
			continue
		}
		if n == HLockW || n == HLockR || n == HDefW || n == HDefR || n == HPriv {
			continue // callees are lock-balanced unless their contract says otherwise; they cannot reach private objects
		}
		if n == "Clock" {
			// the ghost clock only moves forward
			old := c.getHeap(st, n)
			c.havocHeap(st, n)
			c.assume(st, le(old, st.heaps[n]))
			continue
		}
		c.havocHeap(st, n)
	}
}

// initialState builds the entry state with every known heap at version 0.
func (c *Ctx) initialState() *State {
	st := &State{pc: True, heaps: map[string]T{}}
	for _, n := range c.R.heapOrder {
		st.heaps[n] = T{n + "_0", c.R.heaps[n]}
	}
	return st
}

func (c *Ctx) declareInitialHeaps() string {
	var b strings.Builder
	for _, n := range c.R.heapOrder {
		fmt.Fprintf(&b, "(declare-const %s_0 %s)\n", n, c.R.heaps[n])
	}
	return b.String()
}

// merge joins states (mutually exclusive path conditions).
func (c *Ctx) merge(states []*State) *State {
	var live []*State
	for _, s := range states {
		if s != nil && s.pc.S != "false" {
			live = append(live, s)
		}
	}
	if len(live) == 0 {
		return &State{pc: False, heaps: map[string]T{}}
	}
	if len(live) == 1 {
		return live[0].clone()
	}
	var pcs []T
	for _, s := range live {
		pcs = append(pcs, s.pc)
	}
	out := &State{pc: c.name("pc", Or(pcs...)), heaps: map[string]T{}}
	names := map[string]bool{}
	for _, s := range live {
		for k := range s.heaps {
			names[k] = true
		}
	}
	var ks []string
	for k := range names {
		ks = append(ks, k)
	}
	sort.Strings(ks)
	for _, k := range ks {
		var vals []T
		for _, s := range live {
			vals = append(vals, c.getHeap(s, k))
		}
		out.heaps[k] = c.name(k, c.iteChain(pcs, vals))
	}
	return out
}

func (c *Ctx) iteChain(conds []T, vals []T) T {
	same := true
	for _, v := range vals[1:] {
		if v.S != vals[0].S {
			same = false
		}
	}
	if same {
		return vals[0]
	}
	r := vals[len(vals)-1]
	for i := len(vals) - 2; i >= 0; i-- {
		r = Ite(conds[i], vals[i], r)
	}
	return r
}

// ---- allocation -------------------------------------------------------------

func (c *Ctx) rroot(a T) T { return app("Ref", "rroot", a) }

func (c *Ctx) allocated(st *State, a T) T {
	c.R.Heap(HAlloc, ArraySort("Ref", "Bool"))
	return Or(Eq(a, Nil), Select(c.getHeap(st, HAlloc), c.rroot(a)))
}

func (c *Ctx) newObj(st *State, hint string) T {
	c.R.Heap(HAlloc, ArraySort("Ref", "Bool"))
	r := c.fresh(hint, "Ref")
	al := c.getHeap(st, HAlloc)
	c.emit("(assert ((_ is robj) %s))", r.S)
	c.assume(st, Not(Select(al, r)))
	c.setHeap(st, HAlloc, Store(al, r, True))
	c.allocs = append(c.allocs, r)
	return r
}

const HPriv = "Priv"

// markPrivate records that object r comes from an allocation site that no
// callee can reach (escape analysis): its cells survive every callee havoc.
func (c *Ctx) markPrivate(st *State, r T) {
	c.R.Heap(HPriv, ArraySort("Ref", "Bool"))
	c.hasPrivate = true
	c.setHeap(st, HPriv, Store(c.getHeap(st, HPriv), r, True))
}

// keepPrivate: after a callee havoc, cells of private objects are unchanged.
func (c *Ctx) keepPrivate(st *State, before map[string]T) {
	if !c.hasPrivate {
		return
	}
	priv, ok := before[HPriv]
	if !ok {
		return
	}
	for _, h := range c.R.heapOrder {
		old, ok := before[h]
		cur, ok2 := st.heaps[h]
		if !ok || !ok2 || old.S == cur.S {
			continue
		}
		switch {
		case strings.HasPrefix(h, "Cell_"):
			c.emit("(assert (forall ((a Ref)) (! (=> (select %s (rroot a)) (= (select %s a) (select %s a))) :pattern ((select %s a)))))", priv.S, cur.S, old.S, cur.S)
		case strings.HasPrefix(h, "MDom_"), strings.HasPrefix(h, "MVal_"):
			c.emit("(assert (forall ((a Ref)) (! (=> (select %s a) (= (select %s a) (select %s a))) :pattern ((select %s a)))))", priv.S, cur.S, old.S, cur.S)
		}
	}
}

// assumeValid assumes a loaded/received value refers to allocated memory.
// assumeEntryValid: the heap `heap` has not changed since the verified function
// was entered, so the value v read at address addr is the entry value; the
// entry state is closed under reachability (an object allocated at entry only
// points to objects allocated at entry). Guarded by "addr was allocated at
// entry": contents of objects a callee allocated are described on the same
// (unchanged) heap version and may point to fresh objects.
func (c *Ctx) assumeEntryValid(st *State, addr T, v T, heap string) {
	if c.entry == nil || os.Getenv("GOVC_NO_ENTRYVALID") != "" {
		return
	}
	cur, ok := st.heaps[heap]
	ent, ok2 := c.entry.heaps[heap]
	if !ok || !ok2 || cur.S != ent.S {
		return
	}
	al, ok := c.entry.heaps[HAlloc]
	if !ok {
		return
	}
	guard := And(Not(Eq(addr, Nil)), Select(al, c.rroot(addr)))
	switch v.Sort {
	case "Ref":
		c.assume(st, Implies(guard, Or(Eq(v, Nil), Select(al, c.rroot(v)))))
	case "Slice":
		c.assume(st, Implies(guard, Or(Eq(SArr(v), Nil), Select(al, c.rroot(SArr(v))))))
	}
}

func (c *Ctx) assumeValid(st *State, v T, t types.Type) {
	switch v.Sort {
	case "Ref":
		if _, ok := under(t).(*types.Signature); ok {
			return
		}
		c.assume(st, c.allocated(st, v))
	case "Slice":
		c.assume(st, And(c.allocated(st, SArr(v)), app("Bool", "<=", IntLit(0), SOff(v)), app("Bool", "<=", IntLit(0), SLen(v)), app("Bool", "<=", SLen(v), SCap(v)),
			Implies(Eq(SArr(v), Nil), Eq(v, NilSlice))))
	case "Int":
		if b, ok := under(t).(*types.Basic); ok && b.Info()&types.IsUnsigned != 0 {
			c.assume(st, app("Bool", "<=", IntLit(0), v))
		}
	}
}
