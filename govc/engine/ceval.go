package engine

import (
	"fmt"
	"os"
	"go/constant"
	"go/types"
	"strings"

	"golang.org/x/tools/go/ssa"
)

type cval struct {
	t     T
	typ   types.Type
	isNil bool
}

// Env is the evaluation environment of a contract expression.
type Env struct {
	c       *Ctx
	fr      *frame // frame whose names are in scope (may be nil for call-site evaluation)
	st      *State
	old     *State
	vars    map[string]cval
	pkgPath string
	loop    *loopInfo
	atBlock *ssa.BasicBlock // program point for resolving reassigned variables (at-call clauses)
	atIdx   int
	qn      *int
	bound   map[string]bool // quantifier-bound names (shadow program variables)
}

func (e *Env) with(st *State) *Env {
	n := *e
	n.st = st
	return &n
}

func (e *Env) bind(name string, v cval) *Env {
	n := *e
	n.vars = make(map[string]cval, len(e.vars)+1)
	for k, x := range e.vars {
		n.vars[k] = x
	}
	n.vars[name] = v
	n.bound = make(map[string]bool, len(e.bound)+1)
	for k := range e.bound {
		n.bound[k] = true
	}
	n.bound[name] = true
	return &n
}

var errorType = types.Universe.Lookup("error").Type()

// paramEnv builds an environment binding a function's parameter names (and
// optionally result names) to terms.
func (c *Ctx) paramEnv(fn *ssa.Function, args []T, results []T, st, old *State, pkgPath string) *Env {
	env := &Env{c: c, st: st, old: old, vars: map[string]cval{}, pkgPath: pkgPath, qn: new(int)}
	for i, p := range fn.Params {
		if i < len(args) {
			env.vars[p.Name()] = cval{t: args[i], typ: p.Type()}
		}
	}
	sig := fn.Signature
	for i := 0; i < sig.Results().Len() && i < len(results); i++ {
		r := sig.Results().At(i)
		cv := cval{t: results[i], typ: r.Type()}
		env.vars[fmt.Sprintf("result%d", i)] = cv
		if i == 0 {
			env.vars["result"] = cv
		}
		if r.Name() != "" && r.Name() != "_" {
			if _, clash := env.vars[r.Name()]; !clash {
				env.vars[r.Name()] = cv
			}
		}
		if i == sig.Results().Len()-1 && types.Identical(r.Type(), errorType) {
			if _, clash := env.vars["err"]; !clash {
				env.vars["err"] = cv
			}
		}
	}
	return env
}

// ifaceEnv is paramEnv for interface methods (receiver first).
func (c *Ctx) ifaceEnv(m *types.Func, recvType types.Type, args []T, results []T, st, old *State, pkgPath string) *Env {
	env := &Env{c: c, st: st, old: old, vars: map[string]cval{}, pkgPath: pkgPath, qn: new(int)}
	sig := m.Type().(*types.Signature)
	if len(args) > 0 {
		env.vars["recv"] = cval{t: args[0], typ: recvType}
	}
	for i := 0; i < sig.Params().Len() && i+1 < len(args); i++ {
		p := sig.Params().At(i)
		name := p.Name()
		if name == "" || name == "_" {
			name = fmt.Sprintf("arg%d", i)
		}
		env.vars[name] = cval{t: args[i+1], typ: p.Type()}
		env.vars[fmt.Sprintf("arg%d", i)] = cval{t: args[i+1], typ: p.Type()}
	}
	for i := 0; i < sig.Results().Len() && i < len(results); i++ {
		r := sig.Results().At(i)
		cv := cval{t: results[i], typ: r.Type()}
		env.vars[fmt.Sprintf("result%d", i)] = cv
		if i == 0 {
			env.vars["result"] = cv
		}
		if i == sig.Results().Len()-1 && types.Identical(r.Type(), errorType) {
			env.vars["err"] = cv
		}
	}
	return env
}

func (e *Env) errf(format string, args ...interface{}) error {
	return fmt.Errorf(format, args...)
}

// Bool evaluates a boolean contract expression.
func (e *Env) Bool(x Expr) (T, error) {
	v, err := e.eval(x)
	if err != nil {
		return False, err
	}
	if v.t.Sort != "Bool" {
		return False, fmt.Errorf("expression is %s, not Bool", v.t.Sort)
	}
	return v.t, nil
}

func (e *Env) lookupIdent(name string) (cval, bool, error) {
	if e.bound[name] {
		return e.vars[name], true, nil
	}
	// rangeindexN: the index phi of (enclosing) range loop N
	if e.fr != nil && strings.HasPrefix(name, "rangeindex") && len(name) > len("rangeindex") {
		var n int
		if _, err := fmt.Sscanf(name[len("rangeindex"):], "%d", &n); err == nil {
			for _, li := range e.fr.loops {
				if li.ord != n {
					continue
				}
				for _, in := range li.head.Instrs {
					if phi, ok := in.(*ssa.Phi); ok && phi.Comment == "rangeindex" {
						if v, ok := e.fr.vals[phi]; ok {
							return cval{t: v, typ: phi.Type()}, true, nil
						}
					}
				}
			}
		}
	}
	if e.fr != nil && e.loop != nil {
		if v, ok := e.fr.lookupCurrent(name, e.st, e.loop); ok {
			return v, true, nil
		}
	} else if e.fr != nil && e.atBlock != nil {
		if v, ok := e.fr.lookupAt(name, e.st, e.atBlock, e.atIdx); ok {
			return v, true, nil
		}
	}
	if v, ok := e.vars[name]; ok {
		return v, true, nil
	}
	if e.fr != nil {
		if v, ok := e.fr.lookupLocal(name, e.st, e.loop); ok {
			return v, true, nil
		}
	}
	// package-level constant
	if p := e.c.W.TypePkgs[e.pkgPath]; p != nil {
		if o := p.Scope().Lookup(name); o != nil {
			if k, ok := o.(*types.Const); ok {
				return e.constVal(k), true, nil
			}
		}
	}
	return cval{}, false, nil
}

func (e *Env) constVal(k *types.Const) cval {
	c := e.c
	switch c.R.SortOf(k.Type()) {
	case "Int":
		i, _ := constant.Int64Val(constant.ToInt(k.Val()))
		return cval{t: IntLit(i), typ: k.Type()}
	case "Str":
		return cval{t: c.R.StrLit(constant.StringVal(k.Val())), typ: k.Type()}
	case "Bool":
		if constant.BoolVal(k.Val()) {
			return cval{t: True, typ: k.Type()}
		}
		return cval{t: False, typ: k.Type()}
	}
	return cval{t: c.R.Zero(k.Type()), typ: k.Type()}
}

func (e *Env) eval(x Expr) (cval, error) {
	c := e.c
	switch n := x.(type) {
	case *EInt:
		return cval{t: T{n.V, "Int"}, typ: types.Typ[types.Int]}, nil
	case *EStr:
		return cval{t: c.R.StrLit(n.V), typ: types.Typ[types.String]}, nil
	case *EBool:
		if n.V {
			return cval{t: True, typ: types.Typ[types.Bool]}, nil
		}
		return cval{t: False, typ: types.Typ[types.Bool]}, nil
	case *ENil:
		return cval{isNil: true, t: Nil, typ: types.Typ[types.UntypedNil]}, nil
	case *EIdent:
		v, ok, err := e.lookupIdent(n.Name)
		if err != nil {
			return cval{}, err
		}
		if !ok {
			return cval{}, fmt.Errorf("unbound name %q", n.Name)
		}
		return v, nil
	case *ESel:
		// package-qualified constant?
		if id, ok := n.X.(*EIdent); ok {
			if _, bound, _ := e.lookupIdent(id.Name); !bound {
				for path, p := range c.W.TypePkgs {
					if p.Name() == id.Name && (strings.HasPrefix(path, ModPath) || !strings.Contains(path, "/")) {
						if o := p.Scope().Lookup(n.Name); o != nil {
							if k, ok := o.(*types.Const); ok {
								return e.constVal(k), nil
							}
						}
					}
				}
				return cval{}, fmt.Errorf("unbound name %q", id.Name)
			}
		}
		if a, t, ok, err := e.evalAddr(x); err != nil {
			return cval{}, err
		} else if ok {
			return cval{t: c.load(e.st, a, t), typ: t}, nil
		}
		// field of a struct value
		b, err := e.eval(n.X)
		if err != nil {
			return cval{}, err
		}
		st, ok := under(b.typ).(*types.Struct)
		if !ok {
			return cval{}, fmt.Errorf("selector .%s on non-struct %s", n.Name, b.typ)
		}
		for i := 0; i < st.NumFields(); i++ {
			if st.Field(i).Name() == n.Name {
				si := c.R.structOf(b.typ)
				return cval{t: app(si.Fields[i].Sort, fmt.Sprintf("%s_f%d", si.Name, i), b.t), typ: st.Field(i).Type()}, nil
			}
		}
		return cval{}, fmt.Errorf("no field %s in %s", n.Name, b.typ)
	case *EDeref:
		a, t, ok, err := e.evalAddr(x)
		if err != nil || !ok {
			return cval{}, fmt.Errorf("cannot dereference: %v", err)
		}
		return cval{t: c.load(e.st, a, t), typ: t}, nil
	case *EAddr:
		a, t, ok, err := e.evalAddr(n.X)
		if err != nil || !ok {
			return cval{}, fmt.Errorf("cannot take address: %v", err)
		}
		return cval{t: a, typ: types.NewPointer(t)}, nil
	case *EIndex:
		b, err := e.eval(n.X)
		if err != nil {
			return cval{}, err
		}
		i, err := e.eval(n.I)
		if err != nil {
			return cval{}, err
		}
		switch u := under(b.typ).(type) {
		case *types.Map:
			// in contracts m[k] is the stored value and is meaningful only under
			// `k in m` (no zero-value default: keeps quantified terms small)
			c.R.MDomHeapT(u)
			vh := c.R.MValHeapT(u)
			return cval{t: Select(Select(c.getHeap(e.st, vh), b.t), i.t), typ: u.Elem()}, nil
		case *types.Slice:
			return cval{t: c.load(e.st, Elem(b.t, i.t), u.Elem()), typ: u.Elem()}, nil
		case *types.Array:
			return cval{t: Select(b.t, i.t), typ: u.Elem()}, nil
		case *types.Pointer:
			if a, ok := under(u.Elem()).(*types.Array); ok {
				return cval{t: c.load(e.st, Idx(b.t, i.t), a.Elem()), typ: a.Elem()}, nil
			}
		}
		return cval{}, fmt.Errorf("cannot index %s", b.typ)
	case *EUn:
		v, err := e.eval(n.X)
		if err != nil {
			return cval{}, err
		}
		switch n.Op {
		case "!":
			return cval{t: Not(v.t), typ: v.typ}, nil
		case "-":
			return cval{t: app(v.t.Sort, "-", v.t), typ: v.typ}, nil
		}
	case *EBin:
		return e.evalBin(n)
	case *EQuant:
		return e.evalQuant(n)
	case *ECall:
		return e.evalCall(n)
	}
	return cval{}, fmt.Errorf("unsupported expression %T", x)
}

// evalAddr evaluates an lvalue expression to its address and type.
func (e *Env) evalAddr(x Expr) (T, types.Type, bool, error) {
	c := e.c
	switch n := x.(type) {
	case *EIdent:
		// an address-taken local variable
		if _, isParam := e.vars[n.Name]; e.fr != nil && !e.bound[n.Name] && !isParam {
			if a := e.fr.allocNamed(n.Name, e.loop, e.atBlock); a != nil {
				return e.fr.vals[a], deref(a.Type()), true, nil
			}
		}
		return T{}, nil, false, nil
	case *EDeref:
		p, err := e.eval(n.X)
		if err != nil {
			return T{}, nil, false, err
		}
		pt, ok := under(p.typ).(*types.Pointer)
		if !ok {
			return T{}, nil, false, fmt.Errorf("deref of non-pointer %s", p.typ)
		}
		return p.t, pt.Elem(), true, nil
	case *ESel:
		// base is a pointer to struct, or itself addressable
		var base T
		var bt types.Type
		if a, t, ok, err := e.evalAddr(n.X); err == nil && ok {
			if _, isPtr := under(t).(*types.Pointer); isPtr {
				// auto-deref: load the pointer
				base, bt = c.load(e.st, a, t), under(t).(*types.Pointer).Elem()
			} else {
				base, bt = a, t
			}
		} else {
			b, err := e.eval(n.X)
			if err != nil {
				return T{}, nil, false, err
			}
			pt, ok := under(b.typ).(*types.Pointer)
			if !ok {
				return T{}, nil, false, nil // struct value: not addressable
			}
			base, bt = b.t, pt.Elem()
		}
		st, ok := under(bt).(*types.Struct)
		if !ok {
			return T{}, nil, false, fmt.Errorf("selector .%s on %s", n.Name, bt)
		}
		// direct or promoted field
		obj, path, _ := types.LookupFieldOrMethod(bt, true, nil, n.Name)
		if obj == nil {
			// unexported field of another package
			for i := 0; i < st.NumFields(); i++ {
				if st.Field(i).Name() == n.Name {
					return Fld(base, c.R.FieldID(bt, i)), st.Field(i).Type(), true, nil
				}
			}
			return T{}, nil, false, fmt.Errorf("no field %s in %s", n.Name, bt)
		}
		if _, isVar := obj.(*types.Var); !isVar {
			return T{}, nil, false, fmt.Errorf("%s is not a field", n.Name)
		}
		cur, ct := base, bt
		for _, idx := range path {
			s := under(ct).(*types.Struct)
			f := s.Field(idx)
			cur = Fld(cur, c.R.FieldID(ct, idx))
			ct = f.Type()
			if len(path) > 1 {
				if pt, ok := under(ct).(*types.Pointer); ok && idx != path[len(path)-1] {
					cur = c.load(e.st, cur, ct)
					ct = pt.Elem()
				}
			}
		}
		return cur, ct, true, nil
	case *EIndex:
		b, err := e.eval(n.X)
		if err != nil {
			return T{}, nil, false, err
		}
		i, err := e.eval(n.I)
		if err != nil {
			return T{}, nil, false, err
		}
		if sl, ok := under(b.typ).(*types.Slice); ok {
			return Elem(b.t, i.t), sl.Elem(), true, nil
		}
		return T{}, nil, false, nil
	}
	return T{}, nil, false, nil
}

func (e *Env) coerceNil(v cval, other cval) T {
	switch other.t.Sort {
	case "Ref":
		return Nil
	case "Slice":
		return NilSlice
	case "Iface":
		return NilIface
	}
	return v.t
}

func (e *Env) evalBin(n *EBin) (cval, error) {
	c := e.c
	boolT := types.Typ[types.Bool]
	switch n.Op {
	case "&&", "||", "==>", "<==>":
		a, err := e.Bool(n.X)
		if err != nil {
			return cval{}, err
		}
		b, err := e.Bool(n.Y)
		if err != nil {
			return cval{}, err
		}
		switch n.Op {
		case "&&":
			return cval{t: And(a, b), typ: boolT}, nil
		case "||":
			return cval{t: Or(a, b), typ: boolT}, nil
		case "==>":
			return cval{t: Implies(a, b), typ: boolT}, nil
		default:
			return cval{t: Eq(a, b), typ: boolT}, nil
		}
	case "in":
		k, err := e.eval(n.X)
		if err != nil {
			return cval{}, err
		}
		m, err := e.eval(n.Y)
		if err != nil {
			return cval{}, err
		}
		mt, ok := under(m.typ).(*types.Map)
		if !ok {
			return cval{}, fmt.Errorf("'in' needs a map, got %s", m.typ)
		}
		return cval{t: c.mapHas(e.st, m.t, mt, k.t), typ: boolT}, nil
	}
	a, err := e.eval(n.X)
	if err != nil {
		return cval{}, err
	}
	b, err := e.eval(n.Y)
	if err != nil {
		return cval{}, err
	}
	if a.isNil && !b.isNil {
		a.t = e.coerceNil(a, b)
	}
	if b.isNil && !a.isNil {
		b.t = e.coerceNil(b, a)
	}
	switch n.Op {
	case "==", "!=":
		var r T
		if a.t.Sort == "Slice" && (a.isNil || b.isNil) {
			if a.isNil {
				r = Eq(SArr(b.t), Nil)
			} else {
				r = Eq(SArr(a.t), Nil)
			}
		} else {
			if a.t.Sort != b.t.Sort {
				return cval{}, fmt.Errorf("comparing %s with %s", a.t.Sort, b.t.Sort)
			}
			r = Eq(a.t, b.t)
		}
		if n.Op == "!=" {
			r = Not(r)
		}
		return cval{t: r, typ: boolT}, nil
	case "<", "<=", ">", ">=":
		if a.t.Sort == "Str" {
			switch n.Op {
			case "<":
				return cval{t: app("Bool", "strlt", a.t, b.t), typ: boolT}, nil
			case ">":
				return cval{t: app("Bool", "strlt", b.t, a.t), typ: boolT}, nil
			}
			return cval{}, fmt.Errorf("string %s unsupported", n.Op)
		}
		return cval{t: app("Bool", n.Op, a.t, b.t), typ: boolT}, nil
	case "+", "-", "*":
		if a.t.Sort == "Str" && n.Op == "+" {
			return cval{t: app("Str", "strcat", a.t, b.t), typ: a.typ}, nil
		}
		return cval{t: app(a.t.Sort, n.Op, a.t, b.t), typ: a.typ}, nil
	case "/":
		if a.t.Sort == "Real" {
			return cval{t: app("Real", "/", a.t, b.t), typ: a.typ}, nil
		}
		c.R.UFun("godiv", "(define-fun godiv ((a Int) (b Int)) Int (ite (>= a 0) (div a b) (- (div (- a) b))))")
		return cval{t: app("Int", "godiv", a.t, b.t), typ: a.typ}, nil
	case "%":
		c.R.UFun("godiv", "(define-fun godiv ((a Int) (b Int)) Int (ite (>= a 0) (div a b) (- (div (- a) b))))")
		c.R.UFun("gomod", "(define-fun gomod ((a Int) (b Int)) Int (- a (* b (godiv a b))))")
		return cval{t: app("Int", "gomod", a.t, b.t), typ: a.typ}, nil
	}
	return cval{}, fmt.Errorf("unsupported operator %s", n.Op)
}

func (e *Env) evalQuant(n *EQuant) (cval, error) {
	c := e.c
	env := e
	var decls []string
	for i, v := range n.Vars {
		t, err := c.W.ParseType(e.pkgPath, n.Types[i])
		if err != nil {
			return cval{}, err
		}
		*e.qn++
		name := fmt.Sprintf("q_%s_%d", sanitize(v), *e.qn)
		sortS := c.R.SortOf(t)
		decls = append(decls, fmt.Sprintf("(%s %s)", name, sortS))
		env = env.bind(v, cval{t: T{name, sortS}, typ: t})
	}
	body, err := env.Bool(n.Body)
	if err != nil {
		return cval{}, err
	}
	q := "exists"
	if n.Forall {
		q = "forall"
	}
	return cval{t: T{fmt.Sprintf("(%s (%s) %s)", q, strings.Join(decls, " "), body.S), "Bool"}, typ: types.Typ[types.Bool]}, nil
}

func (e *Env) evalCall(n *ECall) (cval, error) {
	c := e.c
	boolT := types.Typ[types.Bool]
	intT := types.Typ[types.Int]
	need := func(k int) error {
		if len(n.Args) != k {
			return fmt.Errorf("%s expects %d argument(s)", n.Fn, k)
		}
		return nil
	}
	switch n.Fn {
	case "old":
		if err := need(1); err != nil {
			return cval{}, err
		}
		if e.old == nil {
			return cval{}, fmt.Errorf("old() not available here")
		}
		oe := e.with(e.old)
		oe.loop = nil // identifiers denote entry values inside old()
		oe.atBlock = nil
		return oe.eval(n.Args[0])
	case "len", "cap":
		if err := need(1); err != nil {
			return cval{}, err
		}
		v, err := e.eval(n.Args[0])
		if err != nil {
			return cval{}, err
		}
		switch u := under(v.typ).(type) {
		case *types.Slice:
			if n.Fn == "cap" {
				return cval{t: SCap(v.t), typ: intT}, nil
			}
			return cval{t: SLen(v.t), typ: intT}, nil
		case *types.Map:
			return cval{t: c.mapLen(e.st, v.t, u), typ: intT}, nil
		case *types.Basic:
			return cval{t: app("Int", "strlen", v.t), typ: intT}, nil
		}
		return cval{}, fmt.Errorf("len of %s", v.typ)
	case "fresh":
		if err := need(1); err != nil {
			return cval{}, err
		}
		v, err := e.eval(n.Args[0])
		if err != nil {
			return cval{}, err
		}
		if e.old == nil {
			return cval{}, fmt.Errorf("fresh() needs a pre-state")
		}
		r := v.t
		if v.t.Sort == "Slice" {
			r = SArr(v.t)
		}
		if r.Sort != "Ref" {
			return cval{}, fmt.Errorf("fresh() of %s", v.t.Sort)
		}
		c.R.Heap(HAlloc, ArraySort("Ref", "Bool"))
		return cval{t: And(Not(Eq(r, Nil)), Not(Select(c.getHeap(e.old, HAlloc), c.rroot(r))), Select(c.getHeap(e.st, HAlloc), c.rroot(r))), typ: boolT}, nil
	case "jsonfield":
		// jsonfield(data, "member", "GoType"): the wire member as decoded by encoding/json
		if err := need(3); err != nil {
			return cval{}, err
		}
		d, err := e.eval(n.Args[0])
		if err != nil {
			return cval{}, err
		}
		nm, ok1 := n.Args[1].(*EStr)
		ts, ok2 := n.Args[2].(*EStr)
		if !ok1 || !ok2 {
			return cval{}, fmt.Errorf("jsonfield(data, \"member\", \"type\")")
		}
		t, err := c.W.ParseType(e.pkgPath, ts.V)
		if err != nil {
			return cval{}, err
		}
		return cval{t: c.jsonField(d.t, nm.V, t, nil), typ: t}, nil
	case "jsonelem":
		// jsonelem(data, i, "GoType"): element i of the wire array as decoded into a slice of GoType
		if err := need(3); err != nil {
			return cval{}, err
		}
		d, err := e.eval(n.Args[0])
		if err != nil {
			return cval{}, err
		}
		i, err := e.eval(n.Args[1])
		if err != nil {
			return cval{}, err
		}
		ts, ok := n.Args[2].(*EStr)
		if !ok {
			return cval{}, fmt.Errorf("jsonelem(data, i, \"type\")")
		}
		t, err := c.W.ParseType(e.pkgPath, ts.V)
		if err != nil {
			return cval{}, err
		}
		return cval{t: c.jsonElem(d.t, i.t, t), typ: t}, nil
	case "jsonlen":
		if err := need(1); err != nil {
			return cval{}, err
		}
		d, err := e.eval(n.Args[0])
		if err != nil {
			return cval{}, err
		}
		return cval{t: c.jsonLen(d.t), typ: types.Typ[types.Int]}, nil
	case "dyntype":
		// dyntype(x): what reflect.TypeOf(x) returns for the interface value x
		if err := need(1); err != nil {
			return cval{}, err
		}
		v, err := e.eval(n.Args[0])
		if err != nil {
			return cval{}, err
		}
		c.R.UFun("reflTypeOf", "(declare-fun reflTypeOf (Int) Iface)\n(declare-fun reflTagOf (Iface) Int)\n(assert (forall ((t Int)) (! (and (not ((_ is inil) (reflTypeOf t))) (= (reflTagOf (reflTypeOf t)) t)) :pattern ((reflTypeOf t)))))")
		return cval{t: Ite(IsNilIface(v.t), NilIface, app("Iface", "reflTypeOf", ITyp(v.t))), typ: types.NewInterfaceType(nil, nil)}, nil
	case "rtypeof":
		// the reflect.Type of a Go type, as returned by reflect.TypeOf
		if err := need(1); err != nil {
			return cval{}, err
		}
		ts, ok := n.Args[0].(*EStr)
		if !ok {
			return cval{}, fmt.Errorf("rtypeof needs a type string")
		}
		t, err := c.W.ParseType(e.pkgPath, ts.V)
		if err != nil {
			return cval{}, err
		}
		c.R.UFun("reflTypeOf", "(declare-fun reflTypeOf (Int) Iface)\n(declare-fun reflTagOf (Iface) Int)\n(assert (forall ((t Int)) (! (and (not ((_ is inil) (reflTypeOf t))) (= (reflTagOf (reflTypeOf t)) t)) :pattern ((reflTypeOf t)))))")
		rt, _ := c.W.ParseType("reflect", "Type")
		if rt == nil {
			rt = types.NewInterfaceType(nil, nil)
		}
		return cval{t: app("Iface", "reflTypeOf", IntLit(int64(c.R.TypeID(t)))), typ: rt}, nil
	case "box":
		// box(v): the interface value holding v (with v's static type)
		if err := need(1); err != nil {
			return cval{}, err
		}
		v, err := e.eval(n.Args[0])
		if err != nil {
			return cval{}, err
		}
		return cval{t: MkIface(IntLit(int64(c.R.TypeID(v.typ))), c.R.Box(v.t)), typ: types.NewInterfaceType(nil, nil)}, nil
	case "ptrof":
		// the pointer boxed in an interface value (models are pointers to structs)
		if err := need(1); err != nil {
			return cval{}, err
		}
		v, err := e.eval(n.Args[0])
		if err != nil {
			return cval{}, err
		}
		if v.t.Sort != "Iface" {
			return cval{}, fmt.Errorf("ptrof() of %s", v.t.Sort)
		}
		return cval{t: Ite(IsNilIface(v.t), Nil, c.R.Unbox(IBox(v.t), "Ref")), typ: types.Typ[types.UnsafePointer]}, nil
	case "sametype":
		if err := need(2); err != nil {
			return cval{}, err
		}
		a, err := e.eval(n.Args[0])
		if err != nil {
			return cval{}, err
		}
		b, err := e.eval(n.Args[1])
		if err != nil {
			return cval{}, err
		}
		return cval{t: And(Eq(IsNilIface(a.t), IsNilIface(b.t)), Implies(Not(IsNilIface(a.t)), Eq(ITyp(a.t), ITyp(b.t)))), typ: boolT}, nil
	case "private":
		// the object belongs to this activation: no callee can reach it
		if err := need(1); err != nil {
			return cval{}, err
		}
		v, err := e.eval(n.Args[0])
		if err != nil {
			return cval{}, err
		}
		r := v.t
		if r.Sort == "Slice" {
			r = SArr(r)
		}
		if r.Sort != "Ref" {
			return cval{}, fmt.Errorf("private() of %s", r.Sort)
		}
		c.R.Heap(HPriv, ArraySort("Ref", "Bool"))
		return cval{t: Select(c.getHeap(e.st, HPriv), c.rroot(r)), typ: boolT}, nil
	case "allocated":
		if err := need(1); err != nil {
			return cval{}, err
		}
		v, err := e.eval(n.Args[0])
		if err != nil {
			return cval{}, err
		}
		if v.t.Sort == "Slice" {
			return cval{t: c.allocated(e.st, SArr(v.t)), typ: boolT}, nil
		}
		return cval{t: c.allocated(e.st, v.t), typ: boolT}, nil
	case "wheld", "rheld":
		if err := need(1); err != nil {
			return cval{}, err
		}
		m, err := e.mutexAddr(n.Args[0])
		if err != nil {
			return cval{}, err
		}
		h := HLockW
		if n.Fn == "rheld" {
			h = HLockR
		}
		return cval{t: c.held(e.st, h, m), typ: intT}, nil
	case "calls", "last", "fails":
		if err := need(1); err != nil {
			return cval{}, err
		}
		s, ok := n.Args[0].(*EStr)
		if !ok {
			return cval{}, fmt.Errorf("%s needs a string literal", n.Fn)
		}
		if n.Fn == "fails" {
			// fails("F"): traced calls of F since entry that returned a non-nil error
			h := "CntFail_" + sanitize(s.V)
			c.R.Heap(h, "Int")
			base := IntLit(0)
			if c.entry != nil {
				base = c.getHeap(c.entry, h)
			}
			return cval{t: sub(c.getHeap(e.st, h), base), typ: intT}, nil
		}
		c.R.Heap("Clock", "Int")
		c.R.Heap(traceKey(s.V), "Int")
		c.R.Heap("Last_"+sanitize(s.V), "Int")
		if n.Fn == "last" {
			return cval{t: c.getHeap(e.st, "Last_"+sanitize(s.V)), typ: intT}, nil
		}
		base := IntLit(0)
		if c.entry != nil {
			base = c.getHeap(c.entry, traceKey(s.V))
		}
		return cval{t: sub(c.getHeap(e.st, traceKey(s.V)), base), typ: intT}, nil
	case "clock":
		c.R.Heap("Clock", "Int")
		return cval{t: c.getHeap(e.st, "Clock"), typ: intT}, nil
	case "istype":
		if err := need(2); err != nil {
			return cval{}, err
		}
		v, err := e.eval(n.Args[0])
		if err != nil {
			return cval{}, err
		}
		s, ok := n.Args[1].(*EStr)
		if !ok {
			return cval{}, fmt.Errorf("istype needs a type string")
		}
		t, err := c.W.ParseType(e.pkgPath, s.V)
		if err != nil {
			return cval{}, err
		}
		return cval{t: And(Not(IsNilIface(v.t)), Eq(ITyp(v.t), IntLit(int64(c.R.TypeID(t))))), typ: boolT}, nil
	case "unbox":
		if err := need(2); err != nil {
			return cval{}, err
		}
		v, err := e.eval(n.Args[0])
		if err != nil {
			return cval{}, err
		}
		s, ok := n.Args[1].(*EStr)
		if !ok {
			return cval{}, fmt.Errorf("unbox needs a type string")
		}
		t, err := c.W.ParseType(e.pkgPath, s.V)
		if err != nil {
			return cval{}, err
		}
		return cval{t: c.R.Unbox(IBox(v.t), c.R.SortOf(t)), typ: t}, nil
	case "ite":
		if err := need(3); err != nil {
			return cval{}, err
		}
		cnd, err := e.Bool(n.Args[0])
		if err != nil {
			return cval{}, err
		}
		a, err := e.eval(n.Args[1])
		if err != nil {
			return cval{}, err
		}
		b, err := e.eval(n.Args[2])
		if err != nil {
			return cval{}, err
		}
		if a.isNil {
			a.t = e.coerceNil(a, b)
			a.typ = b.typ
		}
		if b.isNil {
			b.t = e.coerceNil(b, a)
		}
		return cval{t: Ite(cnd, a.t, b.t), typ: a.typ}, nil
	case "mapof", "ptrto", "sliceof":
		// reflect.MapOf / PtrTo / SliceOf on reflect.Type values
		want := 1
		if n.Fn == "mapof" {
			want = 2
		}
		if err := need(want); err != nil {
			return cval{}, err
		}
		c.declRT()
		var as []T
		for _, a := range n.Args {
			v, err := e.eval(a)
			if err != nil {
				return cval{}, err
			}
			as = append(as, v.t)
		}
		rt, err := c.W.ParseType(e.pkgPath, "reflect.Type")
		if err != nil {
			rt = types.NewInterfaceType(nil, nil)
		}
		return cval{t: app("Iface", "rt_"+n.Fn, as...), typ: rt}, nil
	case "hashable":
		// hashable(x): using interface value x as a map key does not panic
		if err := need(1); err != nil {
			return cval{}, err
		}
		v, err := e.eval(n.Args[0])
		if err != nil {
			return cval{}, err
		}
		if v.t.Sort != "Iface" {
			return cval{t: True, typ: boolT}, nil
		}
		c.R.UFun("hashableT", "(declare-fun hashableT (Int) Bool)")
		return cval{t: Or(IsNilIface(v.t), app("Bool", "hashableT", ITyp(v.t))), typ: boolT}, nil
	case "visited":
		// visited(k): key k already yielded by the range iterator of the current loop
		if err := need(1); err != nil {
			return cval{}, err
		}
		if e.loop == nil || e.fr == nil {
			return cval{}, fmt.Errorf("visited() outside a loop invariant")
		}
		rec := e.fr.loopRange(e.loop)
		if rec == nil || !rec.isMap {
			return cval{}, fmt.Errorf("visited(): loop is not a map range")
		}
		k, err := e.eval(n.Args[0])
		if err != nil {
			return cval{}, err
		}
		vh := c.R.VisitedHeap(k.t.Sort)
		return cval{t: Select(Select(c.getHeap(e.st, vh), rec.it), k.t), typ: boolT}, nil
	}
	// visitedN(k): key k already yielded by the map range of (enclosing) loop N
	if strings.HasPrefix(n.Fn, "visited") && len(n.Fn) > len("visited") && e.fr != nil {
		var ord int
		if _, err := fmt.Sscanf(n.Fn[len("visited"):], "%d", &ord); err == nil {
			for _, li := range e.fr.loops {
				if li.ord != ord {
					continue
				}
				rec := e.fr.loopRange(li)
				if rec == nil || !rec.isMap {
					return cval{}, fmt.Errorf("%s(): loop %d is not a map range", n.Fn, ord)
				}
				if len(n.Args) != 1 {
					return cval{}, fmt.Errorf("%s expects 1 argument", n.Fn)
				}
				k, err := e.eval(n.Args[0])
				if err != nil {
					return cval{}, err
				}
				vh := c.R.VisitedHeap(k.t.Sort)
				return cval{t: Select(Select(c.getHeap(e.st, vh), rec.it), k.t), typ: boolT}, nil
			}
			return cval{}, fmt.Errorf("%s(): no loop %d", n.Fn, ord)
		}
	}
	if pd, ok := c.W.Preds[n.Fn]; ok {
		if len(n.Args) != len(pd.Params) {
			return cval{}, fmt.Errorf("pred %s expects %d args", pd.Name, len(pd.Params))
		}
		env := &Env{c: c, fr: nil, st: e.st, old: e.old, vars: map[string]cval{}, pkgPath: pd.PkgPath, qn: e.qn}
		for i, a := range n.Args {
			v, err := e.eval(a)
			if err != nil {
				return cval{}, err
			}
			if v.isNil {
				pt, err := c.W.ParseType(pd.PkgPath, pd.Types[i])
				if err != nil {
					return cval{}, err
				}
				v = cval{t: c.R.Zero(pt), typ: pt}
			}
			env.vars[pd.Params[i]] = v
		}
		r, err := env.eval(pd.Body)
		if err != nil {
			return cval{}, fmt.Errorf("in pred %s: %v", pd.Name, err)
		}
		return r, nil
	}
	if sf, ok := c.W.SpecFns[n.Fn]; ok {
		if len(n.Args) != len(sf.Params) {
			return cval{}, fmt.Errorf("ghost func %s expects %d args", sf.Name, len(sf.Params))
		}
		rt, err := c.W.ParseType(sf.PkgPath, sf.Result)
		if err != nil {
			return cval{}, err
		}
		var args []T
		var sorts []string
		for i, a := range n.Args {
			v, err := e.eval(a)
			if err != nil {
				return cval{}, err
			}
			pt, err := c.W.ParseType(sf.PkgPath, sf.Params[i])
			if err != nil {
				return cval{}, err
			}
			if v.isNil {
				v.t = c.R.Zero(pt)
			}
			args = append(args, v.t)
			sorts = append(sorts, c.R.SortOf(pt))
		}
		name := "spec_" + sf.Name
		c.R.UFun(name, fmt.Sprintf("(declare-fun %s (%s) %s)", name, strings.Join(sorts, " "), c.R.SortOf(rt)))
		return cval{t: app(c.R.SortOf(rt), name, args...), typ: rt}, nil
	}
	return cval{}, fmt.Errorf("unknown function %s", n.Fn)
}

// mutexAddr: the address of a mutex expression (field by value or pointer).
func (e *Env) mutexAddr(x Expr) (T, error) {
	if a, t, ok, err := e.evalAddr(x); err == nil && ok {
		if _, isPtr := under(t).(*types.Pointer); isPtr {
			return e.c.load(e.st, a, t), nil
		}
		return a, nil
	}
	v, err := e.eval(x)
	if err != nil {
		return T{}, err
	}
	if v.t.Sort != "Ref" {
		return T{}, fmt.Errorf("mutex expression is not addressable")
	}
	return v.t, nil
}

// ---- local variable lookup (loop invariants, at-call clauses) --------------------

func (fr *frame) lookupLocal(name string, st *State, li *loopInfo) (cval, bool) {
	fn := fr.fn
	// parameters and free variables
	for i, p := range fn.Params {
		if p.Name() == name && i < len(fr.params) {
			return cval{t: fr.params[i], typ: p.Type()}, true
		}
	}
	for i, p := range fn.FreeVars {
		if p.Name() == name && i < len(fr.freev) {
			// free variables are pointers to the captured variable
			if pt, ok := under(p.Type()).(*types.Pointer); ok {
				return cval{t: fr.c.load(st, fr.freev[i], pt.Elem()), typ: pt.Elem()}, true
			}
			return cval{t: fr.freev[i], typ: p.Type()}, true
		}
	}
	// phi of the loop head
	if li != nil {
		for _, in := range li.head.Instrs {
			phi, ok := in.(*ssa.Phi)
			if !ok {
				break
			}
			if phi.Comment == name {
				if v, ok := fr.vals[phi]; ok {
					return cval{t: v, typ: phi.Type()}, true
				}
			}
		}
	}
	// address-taken locals
	for _, b := range fn.Blocks {
		for _, in := range b.Instrs {
			if a, ok := in.(*ssa.Alloc); ok && a.Comment == name {
				if v, ok := fr.vals[a]; ok {
					et := deref(a.Type())
					return cval{t: fr.c.load(st, v, et), typ: et}, true
				}
			}
		}
	}
	// unique SSA value via debug refs
	var found ssa.Value
	n := 0
	for _, b := range fn.Blocks {
		for _, in := range b.Instrs {
			if d, ok := in.(*ssa.DebugRef); ok && !d.IsAddr {
				if obj := d.Object(); obj != nil && obj.Name() == name {
					if found != d.X {
						if _, isConst := d.X.(*ssa.Const); isConst && found != nil {
							continue
						}
						found = d.X
						n++
					}
				}
			}
		}
	}
	if n == 1 {
		if v, ok := fr.vals[found]; ok {
			return cval{t: v, typ: found.Type()}, true
		}
		if _, isC := found.(*ssa.Const); isC {
			return cval{t: fr.val(found), typ: found.Type()}, true
		}
	}
	// any phi with that name anywhere (innermost enclosing loops first)
	for _, b := range fn.Blocks {
		for _, in := range b.Instrs {
			if phi, ok := in.(*ssa.Phi); ok && phi.Comment == name {
				if v, ok := fr.vals[phi]; ok {
					if li == nil || li.blocks[b] || b.Dominates(li.head) {
						return cval{t: v, typ: phi.Type()}, true
					}
				}
			}
		}
	}
	return cval{}, false
}

// loopRange finds the range iterator driving a loop (its head calls next).
func (fr *frame) loopRange(li *loopInfo) *rangeRec {
	for _, in := range li.head.Instrs {
		if nx, ok := in.(*ssa.Next); ok {
			if rg, ok := nx.Iter.(*ssa.Range); ok {
				return fr.rangeIt[rg]
			}
		}
	}
	return nil
}

func (fr *frame) loopInvariants(li *loopInfo) []*Clause {
	if fr.contract == nil {
		return nil
	}
	return fr.contract.LoopInv[li.ord]
}

func (fr *frame) evalInv(cl *Clause, st *State, li *loopInfo) (T, error) {
	env := fr.env(st)
	env.loop = li
	return env.Bool(cl.Expr)
}

// env builds the environment of this frame at state st.
func (fr *frame) env(st *State) *Env {
	pkg := ""
	if p := PkgOfFunc(fr.fn); p != nil {
		pkg = p.Path()
	}
	e := fr.c.paramEnv(fr.fn, fr.params, nil, st, fr.entrySt, pkg)
	e.fr = fr
	return e
}

func domDepth(b *ssa.BasicBlock) int {
	d := 0
	for x := b.Idom(); x != nil; x = x.Idom() {
		d++
	}
	return d
}

// lookupCurrent returns the value a source variable holds at the head of
// loop li: the head's phi for it, else the closest dominating reference.
func (fr *frame) lookupCurrent(name string, st *State, li *loopInfo) (cval, bool) {
	// address-taken (heap) variables: their current content
	if a := fr.allocNamed(name, li, nil); a != nil {
		et := deref(a.Type())
		return cval{t: fr.c.load(st, fr.vals[a], et), typ: et}, true
	}
	for _, in := range li.head.Instrs {
		phi, ok := in.(*ssa.Phi)
		if !ok {
			break
		}
		if phi.Comment == name {
			if v, ok := fr.vals[phi]; ok {
				return cval{t: v, typ: phi.Type()}, true
			}
		}
	}
	// a variable with a single non-constant definition in the whole function
	uniq := map[ssa.Value]bool{}
	for _, b := range fr.fn.Blocks {
		for _, in := range b.Instrs {
			switch x := in.(type) {
			case *ssa.DebugRef:
				if !x.IsAddr && x.Object() != nil && x.Object().Name() == name {
					if _, isConst := x.X.(*ssa.Const); !isConst {
						uniq[x.X] = true
					}
				}
			case *ssa.Phi:
				if x.Comment == name {
					uniq[x] = true
				}
			}
		}
	}
	if len(uniq) == 1 {
		for v := range uniq {
			if _, isParam := v.(*ssa.Parameter); !isParam {
				if t, ok := fr.vals[v]; ok {
					return cval{t: t, typ: v.Type()}, true
				}
			}
		}
	}
	var best ssa.Value
	bestDepth, bestIdx := -1, -1
	for _, b := range fr.fn.Blocks {
		if b == li.head || !b.Dominates(li.head) {
			continue
		}
		d := domDepth(b)
		for i, in := range b.Instrs {
			var v ssa.Value
			switch x := in.(type) {
			case *ssa.DebugRef:
				if !x.IsAddr && x.Object() != nil && x.Object().Name() == name {
					if _, isParam := x.X.(*ssa.Parameter); !isParam {
						v = x.X
					}
				}
			case *ssa.Phi:
				if x.Comment == name {
					v = x
				}
			}
			if v == nil {
				continue
			}
			if os.Getenv("GOVC_DEBUG") != "" {
				fmt.Fprintf(os.Stderr, "  cand %s: block %d instr %d: %v (%T)\n", name, b.Index, i, v, v)
			}
			_, vConst := v.(*ssa.Const)
			_, bConst := best.(*ssa.Const)
			if best != nil && vConst && !bConst {
				continue
			}
			if best == nil || (bConst && !vConst) || d > bestDepth || (d == bestDepth && i > bestIdx) {
				best, bestDepth, bestIdx = v, d, i
			}
		}
	}
	if os.Getenv("GOVC_DEBUG") != "" {
		fmt.Fprintf(os.Stderr, "lookupCurrent %s in %s loop %d: best=%v\n", name, fr.fn.Name(), li.ord, best)
	}
	if best != nil {
		if _, isConst := best.(*ssa.Const); isConst {
			return cval{t: fr.val(best), typ: best.Type()}, true
		}
		if v, ok := fr.vals[best]; ok {
			return cval{t: v, typ: best.Type()}, true
		}
	}
	return cval{}, false
}

// lookupAt returns the value a source variable holds just before instruction
// idx of block blk: the closest dominating reference or phi.
func (fr *frame) lookupAt(name string, st *State, blk *ssa.BasicBlock, idx int) (cval, bool) {
	for _, b := range fr.fn.Blocks {
		for _, in := range b.Instrs {
			if a, ok := in.(*ssa.Alloc); ok && a.Comment == name {
				if v, ok := fr.vals[a]; ok {
					et := deref(a.Type())
					return cval{t: fr.c.load(st, v, et), typ: et}, true
				}
			}
		}
	}
	var best ssa.Value
	bestDepth, bestIdx := -1, -1
	for _, b := range fr.fn.Blocks {
		if b != blk && !b.Dominates(blk) {
			continue
		}
		d := domDepth(b)
		for i, in := range b.Instrs {
			if b == blk && i >= idx {
				break
			}
			var v ssa.Value
			switch x := in.(type) {
			case *ssa.DebugRef:
				if !x.IsAddr && x.Object() != nil && x.Object().Name() == name {
					v = x.X
				}
			case *ssa.Phi:
				if x.Comment == name {
					v = x
				}
			}
			if v == nil {
				continue
			}
			if _, defined := fr.vals[v]; !defined {
				if _, isC := v.(*ssa.Const); !isC {
					if _, isP := v.(*ssa.Parameter); !isP {
						continue
					}
				}
			}
			_, vConst := v.(*ssa.Const)
			_, bConst := best.(*ssa.Const)
			if best != nil && vConst && !bConst && d <= bestDepth {
				continue
			}
			if best == nil || d > bestDepth || (d == bestDepth && i > bestIdx) {
				best, bestDepth, bestIdx = v, d, i
			}
		}
	}
	if best == nil {
		return cval{}, false
	}
	return cval{t: fr.val(best), typ: best.Type()}, true
}

// allocNamed picks the address-taken local variable called name that is in
// scope at the loop (or program point): among same-named variables the one
// referenced inside the loop / in a block dominating the point wins.
func (fr *frame) allocNamed(name string, li *loopInfo, at *ssa.BasicBlock) *ssa.Alloc {
	var first, scoped *ssa.Alloc
	for _, b := range fr.fn.Blocks {
		for _, in := range b.Instrs {
			if a, ok := in.(*ssa.Alloc); ok && a.Comment == name {
				if _, defined := fr.vals[a]; !defined {
					continue
				}
				if first == nil {
					first = a
				}
				if refs := a.Referrers(); refs != nil {
					for _, r := range *refs {
						rb := r.Block()
						if rb == nil {
							continue
						}
						if (li != nil && li.blocks[rb]) || (at != nil && (rb == at || at.Dominates(rb))) {
							if scoped == nil || a.Block().Dominates(scoped.Block()) == false {
								scoped = a
							}
						}
					}
				}
			}
		}
	}
	if scoped != nil {
		return scoped
	}
	return first
}
