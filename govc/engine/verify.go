package engine

import (
	"fmt"
	"os"
	"runtime/debug"
	"go/token"
	"go/types"
	"sort"
	"strings"

	"golang.org/x/tools/go/ssa"
)

// FuncResult is the outcome of generating the obligations of one function.
type FuncResult struct {
	Func        string
	Ctx         *Ctx
	Script      string
	Obls        []*Obligation
	Unsupported []string
	GenErr      string
	HasContract bool
}

// Generate runs both passes over fn and assembles the script.
func Generate(w *World, fn *ssa.Function, opt Options) (res *FuncResult) {
	res = &FuncResult{Func: ShortName(fn)}
	defer func() {
		if r := recover(); r != nil {
			res.GenErr = fmt.Sprintf("generator panic: %v", r)
			if os.Getenv("GOVC_DEBUG") != "" {
				res.GenErr += "\n" + string(debug.Stack())
			}
		}
	}()
	c := NewCtx(w, fn, opt)
	res.Ctx = c
	c.loopWrites = map[string]map[string]bool{}
	c.loopAll = map[string]bool{}
	c.loopCallees = map[string][]*ssa.CallCommon{}
	c.loopAllUnknown = map[string]bool{}
	// pass 1: discover heaps and loop write sets
	c.scan = true
	c.runTop()
	// pass 2
	c.reset()
	c.scan = false
	c.runTop()
	res.Obls = c.Obls
	res.Unsupported = c.Unsupported
	res.HasContract = w.Contracts[ShortName(fn)] != nil
	res.Script = c.Script(nil)
	return res
}

// Script assembles the SMT-LIB text; sel selects the obligations to check
// (nil = all).
func (c *Ctx) Script(sel map[int]bool) string {
	var b strings.Builder
	b.WriteString(c.R.Preamble())
	b.WriteString("(declare-fun rroot (Ref) Ref)\n")
	b.WriteString("(assert (forall ((b Ref) (i Int)) (! (= (rroot (rfld b i)) (rroot b)) :pattern ((rfld b i)))))\n")
	b.WriteString("(assert (forall ((b Ref) (i Int)) (! (= (rroot (ridx b i)) (rroot b)) :pattern ((ridx b i)))))\n")
	b.WriteString("(assert (forall ((n Int)) (! (= (rroot (robj n)) (robj n)) :pattern ((robj n)))))\n")
	b.WriteString("(assert (= (rroot rnil) rnil))\n")
	b.WriteString("(assert (forall ((a Ref)) (! (or ((_ is robj) (rroot a)) (= (rroot a) rnil)) :pattern ((rroot a)))))\n")
	b.WriteString("(assert (forall ((a Ref)) (! (=> ((_ is robj) a) (= (rroot a) a)) :pattern ((rroot a)))))\n")
	b.WriteString("(declare-fun selem (Slice Int) Ref)\n")
	b.WriteString("(assert (forall ((s Slice) (i Int)) (! (= (selem s i) (ridx (sarr s) (+ (soff s) i))) :pattern ((selem s i)))))\n")
	b.WriteString(c.declareInitialHeaps())
	b.WriteString(c.R.AxiomsText())
	if _, ok := c.R.heaps[HAlloc]; ok {
		b.WriteString("(assert (not (select Alloc_0 rnil)))\n")
	}
	for _, h := range []string{HLockW, HLockR} {
		if _, ok := c.R.heaps[h]; ok {
			fmt.Fprintf(&b, "(assert (forall ((m Ref)) (! (>= (select %s_0 m) 0) :pattern ((select %s_0 m)))))\n", h, h)
		}
	}
	if _, ok := c.R.heaps[HPriv]; ok {
		b.WriteString("(assert (= Priv_0 ((as const (Array Ref Bool)) false)))\n")
	}
	for _, h := range []string{HDefW, HDefR} {
		if _, ok := c.R.heaps[h]; ok {
			fmt.Fprintf(&b, "(assert (= %s_0 ((as const (Array Ref Int)) 0)))\n", h)
		}
	}
	b.WriteString(c.implementsAxioms())
	body := c.buf.String()
	if sel == nil {
		b.WriteString(body)
		return b.String()
	}
	// drop unselected obligations
	lines := strings.Split(body, "\n")
	skip := false
	for _, ln := range lines {
		if strings.HasPrefix(ln, "(push 1) ; OBL ") || strings.HasPrefix(ln, "(push 1) ; COVER ") {
			var idx int
			fmt.Sscanf(ln[strings.Index(ln, ";")+2:], "%*s %d", &idx)
			f := strings.Fields(ln)
			if len(f) >= 5 {
				fmt.Sscanf(f[4], "%d", &idx)
			}
			if !sel[idx] {
				skip = true
				continue
			}
		}
		if skip {
			if ln == "(pop 1)" {
				skip = false
			}
			continue
		}
		b.WriteString(ln)
		b.WriteByte('\n')
	}
	return b.String()
}

// implementsAxioms states, for every implements-predicate used and every
// known concrete type id, the static answer.
func (c *Ctx) implementsAxioms() string {
	var b strings.Builder
	if c.useHashable {
		ids := make([]int, 0, len(c.R.typeByID))
		for id := range c.R.typeByID {
			ids = append(ids, id)
		}
		sort.Ints(ids)
		for _, id := range ids {
			ans := "false"
			if types.Comparable(c.R.typeByID[id]) {
				ans = "true"
			}
			fmt.Fprintf(&b, "(assert (= (hashableT %d) %s))\n", id, ans)
		}
	}
	for _, name := range c.R.ufunOrder {
		if !strings.HasPrefix(name, "impl_") {
			continue
		}
		it := c.implTypes[name]
		if it == nil {
			continue
		}
		iface := under(it).(*types.Interface)
		ids := make([]int, 0, len(c.R.typeByID))
		for id := range c.R.typeByID {
			ids = append(ids, id)
		}
		sort.Ints(ids)
		for _, id := range ids {
			t := c.R.typeByID[id]
			ans := "false"
			if types.Implements(t, iface) {
				ans = "true"
			}
			fmt.Fprintf(&b, "(assert (= (%s %d) %s))\n", name, id, ans)
		}
	}
	return b.String()
}

// runTop executes the top-level function with its contract.
func (c *Ctx) runTop() {
	fn := c.Top
	fr := c.newFrame(fn, nil)
	ct := c.W.Contracts[ShortName(fn)]
	fr.contract = ct
	c.topFrame = fr
	if ct != nil {
		for n := range ct.Trace {
			c.trackedByKey[sanitize(n)] = n
		}
		for n := range ct.AtCalls {
			c.trackedByKey[sanitize(n)] = n
		}
	}
	st := c.initialState()
	if c.scan {
		st = &State{pc: True, heaps: map[string]T{}}
	}
	c.R.Heap(HAlloc, ArraySort("Ref", "Bool"))
	for i, p := range fn.Params {
		v := c.fresh("p_"+p.Name(), c.R.SortOf(p.Type()))
		c.assumeValid(st, v, p.Type())
		fr.params = append(fr.params, v)
		if i == 0 && c.Opt.RecvNonNil && fn.Signature.Recv() != nil && v.Sort == "Ref" {
			c.assume(st, Not(Eq(v, Nil)))
		}
	}
	for _, p := range fn.FreeVars {
		v := c.fresh("fv_"+p.Name(), c.R.SortOf(p.Type()))
		c.assumeValid(st, v, p.Type())
		if v.Sort == "Ref" {
			c.assume(st, Not(Eq(v, Nil)))
		}
		if pt, ok := under(p.Type()).(*types.Pointer); ok {
			// captured variable: no callee can write it
			c.stable = append(c.stable, stableCell{addr: v, typ: pt.Elem(), stores: storesTo(p)})
		}
		fr.freev = append(fr.freev, v)
	}
	// method receivers of pointer type are non-nil only if the contract says so
	c.entry = st.clone()
	fr.entrySt = st.clone()
	if ct != nil {
		env := fr.env(st)
		for _, cl := range ct.Requires {
			t, err := env.Bool(cl.Expr)
			if err != nil {
				c.unsupported("requires %q of %s: %v", cl.Text, ct.Func, err)
				continue
			}
			c.assume(st, t)
		}
		for _, cl := range ct.Assumes {
			t, err := env.Bool(cl.Expr)
			if err != nil {
				c.unsupported("assume %q of %s: %v", cl.Text, ct.Func, err)
				continue
			}
			c.assume(st, t)
			// an assumption that no caller is checked against: listed in the evidence
			c.Defaults["assumed at entry of "+ct.Func+" (not checked at call sites): "+cl.Text] = true
		}
		c.cover(st, "precondition satisfiable", fn.Pos())
	}
	c.axioms(st)
	fr.run(st)
	c.exitChecks(fr, ct)
	if ct != nil && !c.scan {
		for n := range ct.LoopInv {
			found := false
			for _, li := range fr.loops {
				if li.ord == n {
					found = true
				}
			}
			if !found {
				c.unsupported("loop %d invariant: %s has no loop %d", n, ct.Func, n)
			}
		}
		for name := range ct.AtCalls {
			if c.atCallSeen[name] == 0 {
				c.unsupported("at call %s: no such call in %s", name, ct.Func)
			}
		}
	}
}

// axioms asserts the global axioms of the spec files (listed in evidence).
func (c *Ctx) axioms(st *State) {
	for _, ax := range c.W.Axioms {
		env := &Env{c: c, st: st, old: st, vars: map[string]cval{}, pkgPath: ax.PkgPath, qn: new(int)}
		t, err := env.Bool(ax.Expr)
		if err != nil {
			// axioms over types not present in this script are skipped
			continue
		}
		c.emit("(assert %s) ; axiom %s", t.S, trunc(ax.Text, 60))
	}
}

func (c *Ctx) exitChecks(fr *frame, ct *Contract) {
	fn := fr.fn
	var pos token.Pos = fn.Pos()
	// merge returns
	var live []*retRec
	for _, r := range fr.rets {
		if r.st.pc.S != "false" {
			live = append(live, r)
		}
	}
	if len(live) == 0 {
		c.comment("no normal return")
		return
	}
	var sts []*State
	var pcs []T
	for _, r := range live {
		sts = append(sts, r.st)
		pcs = append(pcs, r.st.pc)
	}
	exit := c.merge(sts)
	var results []T
	for i := 0; i < fn.Signature.Results().Len(); i++ {
		var vs []T
		for _, r := range live {
			vs = append(vs, r.vals[i])
		}
		results = append(results, c.name("result", c.iteChain(pcs, vs)))
	}
	fr.results = results
	c.cover(exit, "exit reachable", pos)
	pkg := ""
	if p := PkgOfFunc(fn); p != nil {
		pkg = p.Path()
	}
	env := c.paramEnv(fn, fr.params, results, exit, fr.entrySt, pkg)
	env.fr = fr
	if ct != nil {
		var errNil T
		hasErr := false
		if n := fn.Signature.Results().Len(); n > 0 && types.Identical(fn.Signature.Results().At(n-1).Type(), errorType) {
			errNil = IsNilIface(results[n-1])
			hasErr = true
		}
		// Postconditions are checked per return site when there are few of them
		// (each query then sees one concrete path suffix instead of the ite-merge
		// of all of them); the clause name records the site ordinal.
		perReturn := len(live) > 1 && len(live) <= 40
		type site struct {
			st      *State
			results []T
			tag     string
		}
		var sites []site
		if perReturn {
			for k, r := range live {
				sites = append(sites, site{r.st, r.vals, fmt.Sprintf(" @return%d", k+1)})
			}
		} else {
			sites = []site{{exit, results, ""}}
		}
		for _, stt := range sites {
			senv := c.paramEnv(fn, fr.params, stt.results, stt.st, fr.entrySt, pkg)
			senv.fr = fr
			var sErrNil T
			if hasErr {
				sErrNil = IsNilIface(stt.results[len(stt.results)-1])
			}
			check := func(cls []*Clause, kind string, guard T) {
				for _, cl := range cls {
					t, err := senv.Bool(cl.Expr)
					if err != nil {
						c.unsupported("%s %q of %s: %v", kind, cl.Text, ct.Func, err)
						continue
					}
					c.oblige(stt.st, kind, cl.Text+stt.tag, Implies(guard, t), pos)
				}
			}
			check(ct.Ensures, "ensures", True)
			if hasErr {
				check(ct.EnsuresOK, "ensures_ok", sErrNil)
				check(ct.EnsuresErr, "ensures_err", Not(sErrNil))
			} else {
				check(ct.EnsuresOK, "ensures_ok", True)
			}
		}
		if perReturn {
			// make the merged exit state know the postconditions too (for frame checks)
			_ = errNil
		}
		if ct.HasModifies && !ct.ModAll {
			for _, fc := range c.frameConds(fr, ct, exit) {
				c.oblige(exit, "frame", fc.name, fc.cond, pos)
			}
		}
	}
	if c.Opt.LockBalance {
		c.lockBalance(fr, ct, exit, env, pos)
	}
}

func (c *Ctx) lockBalance(fr *frame, ct *Contract, exit *State, env *Env, pos token.Pos) {
	for _, h := range []string{HLockW, HLockR} {
		if _, ok := c.R.heaps[h]; !ok {
			continue
		}
		expected := T{h + "_0", ArraySort("Ref", "Int")}
		mode := "W"
		if h == HLockR {
			mode = "R"
		}
		if ct != nil {
			for _, ld := range ct.LockDelta {
				if ld.Mode != mode {
					continue
				}
				m, err := env.with(fr.entrySt).mutexAddr(ld.Expr)
				if err != nil {
					c.unsupported("lock_delta %s: %v", ld.Text, err)
					continue
				}
				upd := Store(expected, m, add(Select(expected, m), IntLit(ld.Delta)))
				if ld.Cond != nil {
					cnd, err := env.Bool(ld.Cond)
					if err != nil {
						c.unsupported("lock_delta cond: %v", err)
						continue
					}
					expected = Ite(cnd, upd, expected)
				} else {
					expected = upd
				}
			}
		}
		c.oblige(exit, "lock-balance", h, Eq(c.getHeap(exit, h), expected), pos)
	}
}

// topFrameConds: the frame conditions of the top-level function's modifies
// clause at state st (used as automatic loop invariants).
func (c *Ctx) topFrameConds(st *State) []frameCond {
	if c.topFrame == nil || c.topFrame.contract == nil {
		return nil
	}
	ct := c.topFrame.contract
	if !ct.HasModifies || ct.ModAll {
		return nil
	}
	return c.frameConds(c.topFrame, ct, st)
}

type frameCond struct {
	name string
	cond T
}

// modLocs evaluates the modifies clause in the entry state.
type modLocs struct {
	cells  map[string][]T // heap name -> leaf addresses
	maps   []mapLoc       // maps whose contents may change
	slices []sliceLoc
}

type mapLoc struct {
	m  T
	mt *types.Map
}

// sliceLoc: all cells of heap `heap` for which in(a) holds (a is the name of
// an address variable) may be written.
type sliceLoc struct {
	heap string
	in   func(a string) string
}

func (c *Ctx) evalModifies(ct *Contract, env *Env) *modLocs {
	ml := &modLocs{cells: map[string][]T{}}
	var addLeaves func(a T, t types.Type)
	addLeaves = func(a T, t types.Type) {
		switch u := under(t).(type) {
		case *types.Struct:
			for i := 0; i < u.NumFields(); i++ {
				addLeaves(Fld(a, c.R.FieldID(t, i)), u.Field(i).Type())
			}
		case *types.Array:
			for i := int64(0); i < u.Len() && i < 16; i++ {
				addLeaves(Idx(a, IntLit(i)), u.Elem())
			}
		default:
			h := c.R.CellHeapT(t)
			ml.cells[h] = append(ml.cells[h], a)
		}
	}
	for _, cl := range ct.Modifies {
		switch n := cl.Expr.(type) {
		case *EStarIx:
			v, err := env.eval(n.X)
			if err != nil {
				c.unsupported("modifies %s: %v", cl.Text, err)
				continue
			}
			switch u := under(v.typ).(type) {
			case *types.Map:
				ml.maps = append(ml.maps, mapLoc{v.t, u})
				c.R.MDomHeapT(u)
				c.R.MValHeapT(u)
			case *types.Slice:
				sv := v.t.S
				// leaf cells of every element: paths of field ids below ridx(arr, j)
				var walk func(t types.Type, path []int)
				walk = func(t types.Type, path []int) {
					if st, ok := under(t).(*types.Struct); ok {
						for i := 0; i < st.NumFields(); i++ {
							walk(st.Field(i).Type(), append(append([]int(nil), path...), c.R.FieldID(t, i)))
						}
						return
					}
					heap := c.R.CellHeapT(t)
					p := append([]int(nil), path...)
					ml.slices = append(ml.slices, sliceLoc{heap: heap, in: func(a string) string {
						// a = rfld(...rfld(ridx(arr,j), p[0])..., p[k-1])
						cur := a
						var conds []string
						for i := len(p) - 1; i >= 0; i-- {
							conds = append(conds, fmt.Sprintf("((_ is rfld) %s) (= (rfid %s) %d)", cur, cur, p[i]))
							cur = "(rbase " + cur + ")"
						}
						conds = append(conds, fmt.Sprintf("((_ is ridx) %s) (= (rarr %s) (sarr %s)) (<= (soff %s) (riidx %s)) (< (riidx %s) (+ (soff %s) (scap %s)))", cur, cur, sv, sv, cur, cur, sv, sv))
						return "(and " + strings.Join(conds, " ") + ")"
					}})
				}
				walk(u.Elem(), nil)
			default:
				c.unsupported("modifies %s: [*] on %s", cl.Text, v.typ)
			}
		default:
			a, t, ok, err := env.evalAddr(cl.Expr)
			if err != nil || !ok {
				c.unsupported("modifies %s: not an lvalue (%v)", cl.Text, err)
				continue
			}
			addLeaves(a, t)
		}
	}
	return ml
}

func isDataHeap(n string) bool {
	return strings.HasPrefix(n, "Cell_") || strings.HasPrefix(n, "MDom_") || strings.HasPrefix(n, "MVal_")
}

// frameConds: for every data heap, addresses allocated at entry and outside
// the modifies set hold their entry value.
func (c *Ctx) frameConds(fr *frame, ct *Contract, st *State) []frameCond {
	env := fr.env(fr.entrySt)
	ml := c.evalModifies(ct, env)
	var out []frameCond
	alloc0 := "Alloc_0"
	for _, h := range c.R.heapOrder {
		if !isDataHeap(h) {
			continue
		}
		cur := c.getHeap(st, h)
		ini := h + "_0"
		if cur.S == ini {
			continue
		}
		whole := false
		for _, mh := range ct.ModHeaps {
			if mh == h {
				whole = true
			}
		}
		if whole {
			continue
		}
		var excl []string
		if strings.HasPrefix(h, "Cell_") {
			for _, a := range ml.cells[h] {
				excl = append(excl, fmt.Sprintf("(not (= a %s))", a.S))
			}
			for _, s := range ml.slices {
				if s.heap == h {
					excl = append(excl, "(not "+s.in("a")+")")
				}
			}
		} else {
			for _, m := range ml.maps {
				if h == c.R.MDomHeapT(m.mt) || h == c.R.MValHeapT(m.mt) {
					excl = append(excl, fmt.Sprintf("(not (= a %s))", m.m.S))
				}
			}
		}
		cond := fmt.Sprintf("(forall ((a Ref)) (! (=> (and (select %s (rroot a)) %s) (= (select %s a) (select %s a))) :pattern ((select %s a))))",
			alloc0, strings.Join(append(excl, "true"), " "), cur.S, ini, cur.S)
		out = append(out, frameCond{name: h, cond: T{cond, "Bool"}})
	}
	return out
}

// ---- calls against contracts ---------------------------------------------------------

func (fr *frame) contractCall(ct *Contract, callee *ssa.Function, cc *ssa.CallCommon, args []T, st *State, pos token.Pos, name string) []T {
	c := fr.c
	c.UsedContracts[name] = true
	if ct.Trusted {
		c.Trusted[name+": "+ct.TrustedWhy] = true
	}
	sig := cc.Signature()
	pre := st.clone()
	mkEnv := func(results []T, cur *State) *Env {
		if callee != nil {
			return c.paramEnv(callee, args, results, cur, pre, ct.PkgPath)
		}
		return c.ifaceEnv(cc.Method, cc.Value.Type(), args, results, cur, pre, ct.PkgPath)
	}
	env := mkEnv(nil, st)
	for _, cl := range ct.Requires {
		t, err := env.Bool(cl.Expr)
		if err != nil {
			c.unsupported("requires %q of %s at call: %v", cl.Text, name, err)
			continue
		}
		if c.Opt.Safety {
			c.oblige(st, "pre", name+": "+cl.Text, t, pos)
		} else {
			c.assume(st, t) // discipline-only sweeps: callee preconditions are checked where the caller is under full contract
		}
	}
	// effects
	if !ct.HasModifies || ct.ModAll {
		c.havocAllCallee(st, cc)
	} else if !ct.Pure {
		// allocation may grow
		old := c.getHeap(st, HAlloc)
		c.havocHeap(st, HAlloc)
		nw := st.heaps[HAlloc]
		c.emit("(assert (forall ((a Ref)) (! (=> (select %s a) (select %s a)) :pattern ((select %s a)))))", old.S, nw.S, nw.S)
		ml := c.evalModifies(ct, env)
		if len(ct.ModHeaps) > 0 {
			// whole-heap havoc cannot reach the caller's non-escaping locals
			snaps := c.snapshotStable(st, nil)
			before := make(map[string]T, len(st.heaps))
			for k, v := range st.heaps {
				before[k] = v
			}
			for _, mh := range ct.ModHeaps {
				if _, ok := c.R.heaps[mh]; ok {
					c.havocHeap(st, mh)
				}
			}
			c.restoreStable(st, snaps)
			c.keepPrivate(st, before)
		}
		var hs []string
		for h := range ml.cells {
			hs = append(hs, h)
		}
		sort.Strings(hs)
		for _, h := range hs {
			cur := c.getHeap(st, h)
			for _, a := range ml.cells[h] {
				cur = Store(cur, a, c.fresh("mod", arrayRange(cur.Sort)))
			}
			c.setHeap(st, h, cur)
		}
		for _, m := range ml.maps {
			for _, h := range []string{c.R.MDomHeapT(m.mt), c.R.MValHeapT(m.mt)} {
				cur := c.getHeap(st, h)
				c.setHeap(st, h, Store(cur, m.m, c.fresh("modmap", arrayRange(cur.Sort))))
			}
		}
		for _, s := range ml.slices {
			cur := c.getHeap(st, s.heap)
			nh := c.fresh(s.heap, cur.Sort)
			c.emit("(assert (forall ((a Ref)) (! (=> (not %s) (= (select %s a) (select %s a))) :pattern ((select %s a)))))",
				s.in("a"), nh.S, cur.S, nh.S)
			c.setHeap(st, s.heap, nh)
		}
	}
	for _, ld := range ct.LockDelta {
		m, err := env.with(pre).mutexAddr(ld.Expr)
		if err != nil {
			c.unsupported("lock_delta at call %s: %v", name, err)
			continue
		}
		h := HLockW
		if ld.Mode == "R" {
			h = HLockR
		}
		if ld.Cond == nil {
			c.lockOp(st, h, m, ld.Delta)
		}
	}
	results := fr.freshResults(st, sig, "res")
	post := mkEnv(results, st)
	var errNil T
	hasErr := false
	if n := sig.Results().Len(); n > 0 && types.Identical(sig.Results().At(n-1).Type(), errorType) {
		errNil = IsNilIface(results[n-1])
		hasErr = true
	}
	assumeAll := func(cls []*Clause, guard T) {
		for _, cl := range cls {
			t, err := post.Bool(cl.Expr)
			if err != nil {
				// a postcondition that mentions the callee's locals is checked on the
				// callee but cannot be used by callers: skipping it is sound
				c.comment("ensures %q of %s not usable at this call: %v", trunc(cl.Text, 60), name, err)
				continue
			}
			c.assume(st, Implies(guard, t))
		}
	}
	assumeAll(ct.Ensures, True)
	assumeAll(ct.EnsuresAssumed, True)
	if len(ct.EnsuresAssumed) > 0 {
		c.Defaults[fmt.Sprintf("ensures_assumed clauses of %s (used at call sites, not checked against its body)", name)] = true
	}
	if hasErr {
		assumeAll(ct.EnsuresOK, errNil)
		assumeAll(ct.EnsuresErr, Not(errNil))
	} else {
		assumeAll(ct.EnsuresOK, True)
	}
	for _, ld := range ct.LockDelta {
		if ld.Cond == nil {
			continue
		}
		m, err := env.with(pre).mutexAddr(ld.Expr)
		if err != nil {
			continue
		}
		cnd, err := post.Bool(ld.Cond)
		if err != nil {
			c.unsupported("lock_delta cond at call %s: %v", name, err)
			continue
		}
		h := HLockW
		if ld.Mode == "R" {
			h = HLockR
		}
		c.R.Heap(h, ArraySort("Ref", "Int"))
		cur := c.getHeap(st, h)
		c.setHeap(st, h, Ite(cnd, Store(cur, m, add(Select(cur, m), IntLit(ld.Delta))), cur))
	}
	return results
}
