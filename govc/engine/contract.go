package engine

import (
	"bufio"
	"bytes"
	"fmt"
	"go/types"
	"io"
	"os"
	"path/filepath"
	"regexp"
	"sort"
	"strconv"
	"strings"
)

// Contract is the set of clauses attached to one function.
type Contract struct {
	Func       string
	PkgPath    string
	File       string
	Requires   []*Clause
	Ensures    []*Clause // unconditional
	EnsuresOK  []*Clause // when the error result is nil
	EnsuresErr []*Clause // when the error result is non-nil
	Modifies   []*Clause
	HasModifies bool
	ModHeaps   []string // whole heap arrays that may be written (coarse frame)
	ModAll     bool
	Pure       bool
	LoopInv    map[int][]*Clause
	Inline     bool
	Iterator   bool // calls its func argument an arbitrary number of times (see calls.go: iteratorCall)
	Trusted    bool
	TrustedWhy string
	MayPanic   bool
	AtCalls    map[string][]*Clause
	LockDelta  []*LockDelta
	Assumes    []*Clause
	Trace      map[string]bool
	Sequential bool // no go statement may be executed by this function
	Lemmas     []*Clause
	EnsuresAssumed []*Clause // used at call sites, NOT checked against the body (listed as trusted clauses)
}

type LockDelta struct {
	Expr  Expr
	Text  string
	Mode  string // W or R
	Delta int64
	Cond  Expr // optional: only when cond (evaluated at exit)
}

type Clause struct {
	Text string
	Expr Expr
	Line int
	Kind string
}

type PredDef struct {
	Name    string
	Params  []string
	Types   []string
	Body    Expr
	Text    string
	PkgPath string
}

type SpecFn struct {
	Name    string
	Params  []string // type strings
	Result  string
	PkgPath string
	// Heaps: the spec function additionally depends on these heap arrays
	// (passed implicitly in the current state)
	Heaps []string
}

type Axiom struct {
	Text    string
	Expr    Expr
	PkgPath string
}

var reCalls = regexp.MustCompile(`(?:calls|last|fails)\("([^"]+)"\)`)

// LoadContracts reads every verif_contracts.go below the repository.
func (w *World) LoadContracts() error {
	var files []string
	filepath.Walk(w.Repo, func(p string, info os.FileInfo, err error) error {
		if err == nil && !info.IsDir() && info.Name() == "verif_contracts.go" {
			files = append(files, p)
		}
		return nil
	})
	for _, f := range files {
		if err := w.loadContractFile(f); err != nil {
			return err
		}
	}
	// contract files that exist only in the load overlay (contracts for code
	// generated at check time)
	var ov []string
	for p := range LoadOverlay {
		if filepath.Base(p) == "verif_contracts.go" {
			ov = append(ov, p)
		}
	}
	sort.Strings(ov)
	for _, f := range ov {
		if err := w.loadContractFile(f); err != nil {
			return err
		}
	}
	return nil
}

func (w *World) loadContractFile(path string) error {
	var fh io.Reader
	if b, ok := LoadOverlay[path]; ok {
		fh = bytes.NewReader(b)
	} else {
		f, err := os.Open(path)
		if err != nil {
			return err
		}
		defer f.Close()
		fh = f
	}
	rel, _ := filepath.Rel(w.Repo, filepath.Dir(path))
	pkgPath := ModPath
	if rel != "." {
		pkgPath = ModPath + "/" + filepath.ToSlash(rel)
	}
	pkgShort := shorten(pkgPath + "/x")
	pkgShort = strings.TrimSuffix(pkgShort, "/x")
	sc := bufio.NewScanner(fh)
	sc.Buffer(make([]byte, 1<<20), 1<<20)
	var cur *Contract
	type pending struct {
		kind string
		text string
		line int
		arg  string
	}
	var pend *pending
	flush := func() error {
		if pend == nil {
			return nil
		}
		p := pend
		pend = nil
		return w.addClause(cur, pkgPath, path, p.kind, p.arg, strings.TrimSpace(p.text), p.line)
	}
	ln := 0
	for sc.Scan() {
		ln++
		line := strings.TrimSpace(sc.Text())
		if !strings.HasPrefix(line, "//@") {
			continue
		}
		body := strings.TrimPrefix(line, "//@")
		if strings.HasPrefix(body, "+") { // continuation
			if pend != nil {
				pend.text += " " + strings.TrimSpace(body[1:])
			}
			continue
		}
		body = strings.TrimSpace(body)
		if body == "" || strings.HasPrefix(body, "--") {
			continue
		}
		if err := flush(); err != nil {
			return err
		}
		kw, rest := splitWord(body)
		switch kw {
		case "func":
			name := strings.TrimSpace(rest)
			// "func NAME group G": a block of clauses that only takes part when
			// group G is enabled (properties.json "groups" / govc func -groups)
			grp := ""
			if i := strings.Index(name, " group "); i >= 0 {
				grp = strings.TrimSpace(name[i+7:])
				name = strings.TrimSpace(name[:i])
			}
			if !strings.Contains(name, ".") || strings.HasPrefix(name, "(") || (name[0] >= 'A' && name[0] <= 'Z') {
				name = pkgShort + "." + name
			}
			if grp != "" && !w.Groups[grp] {
				// disabled group: clauses are parsed (syntax errors still show) into a throw-away contract
				cur = &Contract{Func: name, PkgPath: pkgPath, File: path, LoopInv: map[int][]*Clause{}, AtCalls: map[string][]*Clause{}, Trace: map[string]bool{}}
				break
			}
			cur = w.Contracts[name]
			if cur == nil {
				cur = &Contract{Func: name, PkgPath: pkgPath, File: path, LoopInv: map[int][]*Clause{}, AtCalls: map[string][]*Clause{}, Trace: map[string]bool{}}
				w.Contracts[name] = cur
			}
		case "inline":
			if cur != nil {
				cur.Inline = true
			}
		case "iterator":
			if cur != nil {
				cur.Iterator = true
			}
		case "pure":
			if cur != nil {
				cur.Pure = true
				cur.HasModifies = true
			}
		case "may_panic":
			if cur != nil {
				cur.MayPanic = true
			}
		case "sequential":
			// the function does its work itself: it starts no goroutine
			if cur != nil {
				cur.Sequential = true
			}
		case "trusted":
			if cur != nil {
				cur.Trusted = true
				cur.TrustedWhy = strings.Trim(strings.TrimSpace(rest), "\"")
			}
		case "loop":
			n, r2 := splitWord(rest)
			k2, r3 := splitWord(r2)
			if k2 != "invariant" {
				return fmt.Errorf("%s:%d: expected 'loop N invariant'", path, ln)
			}
			pend = &pending{kind: "loopinv", arg: n, text: r3, line: ln}
		case "at":
			// at call <name> requires <expr>
			k1, r1 := splitWord(rest)
			if k1 != "call" && k1 != "update" {
				return fmt.Errorf("%s:%d: expected 'at call' or 'at update'", path, ln)
			}
			nm, r2 := splitWord(r1)
			if k1 == "update" {
				nm = "mapupdate:" + nm
			}
			k2, r3 := splitWord(r2)
			if k2 != "requires" {
				return fmt.Errorf("%s:%d: expected 'at call F requires'", path, ln)
			}
			pend = &pending{kind: "atcall", arg: nm, text: r3, line: ln}
		case "requires", "ensures", "ensures_ok", "ensures_err", "ensures_assumed", "modifies", "assume", "pred", "ghost", "axiom", "lemma", "lock_delta", "trace":
			pend = &pending{kind: kw, text: rest, line: ln}
		default:
			return fmt.Errorf("%s:%d: unknown contract keyword %q", path, ln, kw)
		}
	}
	return flush()
}

func splitWord(s string) (string, string) {
	s = strings.TrimSpace(s)
	i := strings.IndexAny(s, " \t")
	if i < 0 {
		return s, ""
	}
	return s[:i], strings.TrimSpace(s[i+1:])
}

func (w *World) addClause(cur *Contract, pkgPath, path, kind, arg, text string, line int) error {
	fail := func(err error) error { return fmt.Errorf("%s:%d: %v (in %q)", path, line, err, text) }
	switch kind {
	case "pred":
		// Name(x T, y U) := expr
		i := strings.Index(text, ":=")
		if i < 0 {
			return fail(fmt.Errorf("pred needs :="))
		}
		head, body := strings.TrimSpace(text[:i]), strings.TrimSpace(text[i+2:])
		lp := strings.Index(head, "(")
		if lp < 0 || !strings.HasSuffix(head, ")") {
			return fail(fmt.Errorf("bad pred head"))
		}
		pd := &PredDef{Name: strings.TrimSpace(head[:lp]), Text: body, PkgPath: pkgPath}
		for _, p := range splitTop(head[lp+1:len(head)-1], ',') {
			p = strings.TrimSpace(p)
			if p == "" {
				continue
			}
			n, t := splitWord(p)
			pd.Params = append(pd.Params, n)
			pd.Types = append(pd.Types, t)
		}
		e, err := ParseExpr(body)
		if err != nil {
			return fail(err)
		}
		pd.Body = e
		w.Preds[pd.Name] = pd
		return nil
	case "ghost":
		// ghost func name(T1, T2) R [reads Heap1, Heap2]
		k, rest := splitWord(text)
		if k != "func" {
			return fail(fmt.Errorf("expected 'ghost func'"))
		}
		lp := strings.Index(rest, "(")
		rp := matchParen(rest, lp)
		if lp < 0 || rp < 0 {
			return fail(fmt.Errorf("bad ghost func"))
		}
		sf := &SpecFn{Name: strings.TrimSpace(rest[:lp]), PkgPath: pkgPath}
		for _, p := range splitTop(rest[lp+1:rp], ',') {
			if p = strings.TrimSpace(p); p != "" {
				sf.Params = append(sf.Params, p)
			}
		}
		sf.Result = strings.TrimSpace(rest[rp+1:])
		w.SpecFns[sf.Name] = sf
		return nil
	}
	if kind == "axiom" {
		e, err := ParseExpr(text)
		if err != nil {
			return fail(err)
		}
		w.Axioms = append(w.Axioms, &Axiom{Text: text, Expr: e, PkgPath: pkgPath})
		return nil
	}
	if cur == nil {
		return fail(fmt.Errorf("clause outside a func block"))
	}
	for _, m := range reCalls.FindAllStringSubmatch(text, -1) {
		cur.Trace[m[1]] = true
	}
	switch kind {
	case "trace":
		for _, n := range strings.Fields(text) {
			cur.Trace[n] = true
		}
		return nil
	case "modifies":
		cur.HasModifies = true
		t := strings.TrimSpace(text)
		if t == "nothing" {
			return nil
		}
		if t == "all" {
			cur.ModAll = true
			return nil
		}
		for _, p := range splitTop(t, ',') {
			p = strings.TrimSpace(p)
			if strings.HasPrefix(p, "heap:") {
				cur.ModHeaps = append(cur.ModHeaps, strings.TrimPrefix(p, "heap:"))
				continue
			}
			e, err := ParseExpr(p)
			if err != nil {
				return fail(err)
			}
			cur.Modifies = append(cur.Modifies, &Clause{Text: p, Expr: e, Line: line, Kind: kind})
		}
		return nil
	case "lock_delta":
		// lock_delta <expr> W|R +1|-1 [when <expr>]
		parts := strings.Fields(text)
		if len(parts) < 3 {
			return fail(fmt.Errorf("lock_delta <expr> W|R <delta>"))
		}
		e, err := ParseExpr(parts[0])
		if err != nil {
			return fail(err)
		}
		d, err := strconv.ParseInt(parts[2], 10, 64)
		if err != nil {
			return fail(err)
		}
		ld := &LockDelta{Expr: e, Text: parts[0], Mode: parts[1], Delta: d}
		if len(parts) > 4 && parts[3] == "when" {
			ce, err := ParseExpr(strings.Join(parts[4:], " "))
			if err != nil {
				return fail(err)
			}
			ld.Cond = ce
		}
		cur.LockDelta = append(cur.LockDelta, ld)
		return nil
	}
	e, err := ParseExpr(text)
	if err != nil {
		return fail(err)
	}
	cl := &Clause{Text: text, Expr: e, Line: line, Kind: kind}
	switch kind {
	case "requires":
		cur.Requires = append(cur.Requires, cl)
	case "ensures":
		cur.Ensures = append(cur.Ensures, cl)
	case "ensures_ok":
		cur.EnsuresOK = append(cur.EnsuresOK, cl)
	case "ensures_err":
		cur.EnsuresErr = append(cur.EnsuresErr, cl)
	case "ensures_assumed":
		cur.EnsuresAssumed = append(cur.EnsuresAssumed, cl)
	case "assume":
		cur.Assumes = append(cur.Assumes, cl)
	case "lemma":
		cur.Lemmas = append(cur.Lemmas, cl)
	case "loopinv":
		n, err := strconv.Atoi(arg)
		if err != nil {
			return fail(err)
		}
		cur.LoopInv[n] = append(cur.LoopInv[n], cl)
	case "atcall":
		cur.AtCalls[arg] = append(cur.AtCalls[arg], cl)
		cur.Trace[arg] = cur.Trace[arg]
	}
	return nil
}

func matchParen(s string, lp int) int {
	if lp < 0 {
		return -1
	}
	d := 0
	for i := lp; i < len(s); i++ {
		switch s[i] {
		case '(':
			d++
		case ')':
			d--
			if d == 0 {
				return i
			}
		}
	}
	return -1
}

// splitTop splits at sep outside parentheses/brackets.
func splitTop(s string, sep byte) []string {
	var out []string
	d := 0
	last := 0
	for i := 0; i < len(s); i++ {
		switch s[i] {
		case '(', '[', '{':
			d++
		case ')', ']', '}':
			d--
		default:
			if s[i] == sep && d == 0 {
				out = append(out, s[last:i])
				last = i + 1
			}
		}
	}
	out = append(out, s[last:])
	return out
}

// resolveType evaluates a Go type expression in the scope of package pkgPath.
func (w *World) resolveType(pkgPath, expr string) (types.Type, error) {
	pkg := w.TypePkgs[pkgPath]
	if pkg == nil {
		return nil, fmt.Errorf("package %s not loaded", pkgPath)
	}
	tv, err := types.Eval(w.Fset, pkg, 0, expr)
	if err != nil {
		// try qualifying through imports of any loaded package (e.g. model.Model from cache)
		return nil, err
	}
	if !tv.IsType() {
		return nil, fmt.Errorf("%s is not a type", expr)
	}
	return tv.Type, nil
}
