package engine

import (
	"os"
	"fmt"
	"reflect"
	"go/constant"
	"go/token"
	"go/types"
	"strings"

	"golang.org/x/tools/go/ssa"
)

// mutating external functions: the default "writes nothing" contract would be
// unsound for these; they havoc the whole (non-ghost) heap.
var mutatingExternal = []string{
	"sort.", "reflect.(Value).Set", "reflect.Copy", "reflect.Append", "reflect.(Value).Grow",
	"encoding/gob.", "encoding/json.(*Decoder)", "bytes.(*Buffer)", "strings.(*Builder)", "io.",
	"sync.(*Once).Do", "sync.(*WaitGroup)", "sync.(*Map)", "atomic.", "sync/atomic.",
	"reflect.(Value).Call", "reflect.(Value).Clear",
}

func (c *Ctx) lockOp(st *State, heap string, m T, delta int64) {
	c.R.Heap(heap, ArraySort("Ref", "Int"))
	h := c.getHeap(st, heap)
	c.setHeap(st, heap, Store(h, m, add(Select(h, m), IntLit(delta))))
}

func (c *Ctx) held(st *State, heap string, m T) T {
	c.R.Heap(heap, ArraySort("Ref", "Int"))
	return Select(c.getHeap(st, heap), m)
}

// externalModel handles calls with a built-in model. Returns ok=false when
// there is none.
func (fr *frame) externalModel(name string, cc *ssa.CallCommon, args []T, st *State, pos token.Pos) ([]T, bool) {
	c := fr.c
	switch name {
	case "sync.(*Mutex).Lock", "sync.(*RWMutex).Lock":
		fr.lockOrder(st, args[0], "W", pos)
		c.lockOp(st, HLockW, args[0], 1)
		return nil, true
	case "sync.(*Mutex).Unlock", "sync.(*RWMutex).Unlock":
		if c.Opt.LockBalance {
			c.oblige(st, "unlock-unheld", operandName(cc.Args[0]), le(IntLit(1), c.held(st, HLockW, args[0])), pos)
		}
		c.lockOp(st, HLockW, args[0], -1)
		return nil, true
	case "sync.(*RWMutex).RLock":
		fr.lockOrder(st, args[0], "R", pos)
		c.lockOp(st, HLockR, args[0], 1)
		return nil, true
	case "sync.(*RWMutex).RUnlock":
		if c.Opt.LockBalance {
			c.oblige(st, "unlock-unheld", operandName(cc.Args[0]), le(IntLit(1), c.held(st, HLockR, args[0])), pos)
		}
		c.lockOp(st, HLockR, args[0], -1)
		return nil, true
	case "sync.(*Mutex).TryLock", "sync.(*RWMutex).TryLock":
		ok := c.fresh("trylock", "Bool")
		c.R.Heap(HLockW, ArraySort("Ref", "Int"))
		h := c.getHeap(st, HLockW)
		c.setHeap(st, HLockW, Ite(ok, Store(h, args[0], add(Select(h, args[0]), IntLit(1))), h))
		return []T{ok}, true
	case "sync.(*RWMutex).TryRLock":
		ok := c.fresh("tryrlock", "Bool")
		c.R.Heap(HLockR, ArraySort("Ref", "Int"))
		h := c.getHeap(st, HLockR)
		c.setHeap(st, HLockR, Ite(ok, Store(h, args[0], add(Select(h, args[0]), IntLit(1))), h))
		return []T{ok}, true
	case "fmt.Errorf", "errors.New":
		e := c.fresh("err", "Iface")
		c.assume(st, Not(IsNilIface(e)))
		return []T{e}, true
	case "fmt.Sprintf":
		if r, ok := fr.sprintfModel(cc); ok && os.Getenv("GOVC_NO_SPRINTF") == "" {
			return []T{r}, true
		}
		return []T{c.fresh("sprintf", "Str")}, true
	case "fmt.Sprint", "fmt.Sprintln":
		return []T{c.fresh("sprintf", "Str")}, true
	case "reflect.MapOf":
		c.declRT()
		return []T{app("Iface", "rt_mapof", args[0], args[1])}, true
	case "reflect.PtrTo", "reflect.PointerTo":
		c.declRT()
		return []T{app("Iface", "rt_ptrto", args[0])}, true
	case "reflect.SliceOf":
		c.declRT()
		return []T{app("Iface", "rt_sliceof", args[0])}, true
	case "encoding/json.Unmarshal":
		// target: the pointer boxed in args[1]
		if mi, ok := cc.Args[1].(*ssa.MakeInterface); ok {
			if pt, ok := under(mi.X.Type()).(*types.Pointer); ok {
				p := fr.val(mi.X)
				fr.safety(st, "nil-deref", "json.Unmarshal into nil pointer", Not(Eq(p, Nil)), pos)
				et := pt.Elem()
				nv := c.freshOfType(st, et, "json")
				if stt, ok := under(et).(*types.Struct); ok {
					// struct model: every exported member takes the value of the wire
					// member named by its json tag (uninterpreted function of the
					// input bytes and the member name); other fields keep their value
					si := c.R.structOf(et)
					cur := c.load(st, p, et)
					var fargs []T
					for i := 0; i < stt.NumFields(); i++ {
						f := stt.Field(i)
						name := f.Name()
						if tag := reflect.StructTag(stt.Tag(i)).Get("json"); tag != "" {
							if j := strings.Index(tag, ","); j >= 0 {
								tag = tag[:j]
							}
							if tag != "" {
								name = tag
							}
						}
						if !f.Exported() || name == "-" {
							fargs = append(fargs, app(si.Fields[i].Sort, fmt.Sprintf("%s_f%d", si.Name, i), cur))
							continue
						}
						fargs = append(fargs, c.jsonField(args[0], name, f.Type(), st))
					}
					if len(fargs) > 0 {
						nv = c.name("json", app(si.Name, "mk_"+si.Name, fargs...))
					}
				}
				if slt, ok := under(et).(*types.Slice); ok {
					if _, isBasic := under(slt.Elem()).(*types.Basic); isBasic {
						// slice model: a new backing array whose element i is the wire
						// element i (uninterpreted function of the input bytes), of the
						// wire array's length
						r := c.newObj(st, "jsonarr")
						n := c.jsonLen(args[0])
						c.assume(st, le(IntLit(0), n))
						h := c.getHeap(st, c.R.CellHeapT(slt.Elem()))
						el := c.jsonElem(args[0], T{"i", "Int"}, slt.Elem())
						c.emit("(assert (forall ((i Int)) (! (= (select %s (ridx %s i)) %s) :pattern ((ridx %s i)))))", h.S, r.S, el.S, r.S)
						nv = c.name("json", MkSlice(r, IntLit(0), n, n))
					}
				}
				c.store(st, p, et, nv)
				e := c.fresh("json_err", "Iface")
				if c.R.SortOf(et) == "Iface" && c.Opt.JSONShape {
					c.assume(st, c.jsonShape(nv))
					c.AssumedJSON = true
				}
				return []T{e}, true
			}
		}
		c.havocAll(st)
		return []T{c.fresh("json_err", "Iface")}, true
	case "reflect.TypeOf":
		// documented: TypeOf(nil interface) is nil, otherwise the dynamic type
		c.R.UFun("reflTypeOf", "(declare-fun reflTypeOf (Int) Iface)\n(declare-fun reflTagOf (Iface) Int)\n(assert (forall ((t Int)) (! (and (not ((_ is inil) (reflTypeOf t))) (= (reflTagOf (reflTypeOf t)) t)) :pattern ((reflTypeOf t)))))")
		return []T{Ite(IsNilIface(args[0]), NilIface, app("Iface", "reflTypeOf", ITyp(args[0])))}, true
	case "encoding/json.Marshal":
		b := c.fresh("json_bytes", "Slice")
		c.assumeValid(st, b, types.NewSlice(types.Typ[types.Byte]))
		if mi, ok := cc.Args[0].(*ssa.MakeInterface); ok {
			if slt, ok := under(mi.X.Type()).(*types.Slice); ok {
				if _, isBasic := under(slt.Elem()).(*types.Basic); isBasic {
					// slice model (the inverse of Unmarshal's): the bytes encode an
					// array of the slice's length whose element i is the slice's
					sl := fr.val(mi.X)
					c.assume(st, Eq(c.jsonLen(b), SLen(sl)))
					h := c.getHeap(st, c.R.CellHeapT(slt.Elem()))
					el := c.jsonElem(b, T{"i", "Int"}, slt.Elem())
					c.emit("(assert (=> %s (forall ((i Int)) (! (=> (and (<= 0 i) (< i %s)) (= %s (select %s (selem %s i)))) :pattern (%s)))))", st.pc.S, SLen(sl).S, el.S, h.S, sl.S, el.S)
				}
			}
		}
		return []T{b, c.fresh("json_err", "Iface")}, true
	}
	if name == "reflect.Type.Comparable" {
		c.R.UFun("reflTypeOf", "(declare-fun reflTypeOf (Int) Iface)\n(declare-fun reflTagOf (Iface) Int)\n(assert (forall ((t Int)) (! (and (not ((_ is inil) (reflTypeOf t))) (= (reflTagOf (reflTypeOf t)) t)) :pattern ((reflTypeOf t)))))")
		c.R.UFun("hashableT", "(declare-fun hashableT (Int) Bool)")
		c.useHashable = true
		return []T{app("Bool", "hashableT", app("Int", "reflTagOf", args[0]))}, true
	}
	if cc.IsInvoke() && cc.Method.Name() == "Error" && cc.Signature().Params().Len() == 0 {
		// assumption (listed in evidence): error messages are non-empty strings
		es := c.fresh("errstr", "Str")
		c.assume(st, lt(IntLit(0), app("Int", "strlen", es)))
		c.Defaults["error.Error() returns a non-empty message"] = true
		return []T{es}, true
	}
	callee := cc.StaticCallee()
	if callee != nil && !InRepo(callee) || cc.IsInvoke() && !methodInRepo(cc.Method) {
		if _, has := c.W.Contracts[name]; has {
			return nil, false
		}
		for _, p := range mutatingExternal {
			if strings.HasPrefix(name, p) {
				c.Defaults[name+" (havoc heap)"] = true
				if strings.HasPrefix(name, "reflect.(Value).Call") || strings.HasPrefix(name, "sync.(*Once).Do") {
					// runs a function value: may re-enter the repository
					c.havocAll(st)
				} else {
					// external code that does not call back: the ghost call
					// counters of in-repo functions survive
					c.havocAllCallees(st, []*ssa.CallCommon{cc})
				}
				return fr.freshResults(st, cc.Signature(), "ext"), true
			}
		}
	}
	return nil, false
}

// freshOfType makes an arbitrary well-formed value of a Go type.
func (c *Ctx) freshOfType(st *State, t types.Type, hint string) T {
	v := c.fresh(hint, c.R.SortOf(t))
	c.assumeValid(st, v, t)
	return v
}

// jsonShape: the dynamic type of a decoded interface{} is one of the six JSON
// shapes.
func (c *Ctx) jsonShape(v T) T {
	// (int: the repository's own number-preserving decoder keeps an integer
	// literal that float64 cannot hold exactly as an int)
	ids := []types.Type{types.Typ[types.Bool], types.Typ[types.Float64], types.Typ[types.Int], types.Typ[types.String],
		types.NewSlice(types.NewInterfaceType(nil, nil)), types.NewMap(types.Typ[types.String], types.NewInterfaceType(nil, nil))}
	alts := []T{IsNilIface(v)}
	for _, t := range ids {
		alts = append(alts, And(Not(IsNilIface(v)), Eq(ITyp(v), IntLit(int64(c.R.TypeID(t))))))
	}
	return Or(alts...)
}

func (c *Ctx) noteIfaceTarget(t types.Type) {}

// ---- lock order --------------------------------------------------------------------

// lockOrder emits the lock-order obligations declared for the top function's
// package (see contracts: `lockorder a < b`).
func (fr *frame) lockOrder(st *State, m T, mode string, pos token.Pos) {
	// implemented through `at lock` clauses; see DESIGN 7/C18. Placeholder.
}

// ---- ghost call trace -------------------------------------------------------------

func traceKey(name string) string { return "Cnt_" + sanitize(name) }

func (c *Ctx) traceCall(name string, st *State) {
	if !c.tracked(name) {
		return
	}
	c.trackedByKey[sanitize(name)] = name
	c.R.Heap("Clock", "Int")
	c.R.Heap(traceKey(name), "Int")
	c.R.Heap("Last_"+sanitize(name), "Int")
	clk := add(c.getHeap(st, "Clock"), IntLit(1))
	c.setHeap(st, "Clock", clk)
	c.setHeap(st, traceKey(name), add(c.getHeap(st, traceKey(name)), IntLit(1)))
	c.setHeap(st, "Last_"+sanitize(name), c.getHeap(st, "Clock"))
}

func (c *Ctx) tracked(name string) bool {
	ct := c.W.Contracts[ShortName(c.Top)]
	if ct == nil {
		return false
	}
	return ct.Trace[name]
}

// mayReach: can the call reach (transitively, over static callees and
// name-resolved interface invokes inside the repository) a function whose
// short name is target? Conservative: unknown dynamic calls reach everything.
func (c *Ctx) mayReach(cc *ssa.CallCommon, target string) bool {
	// function values handed to the callee run inside it
	for _, a := range cc.Args {
		if _, isFunc := under(a.Type()).(*types.Signature); !isFunc {
			continue
		}
		fns := funcTargets(a, 0)
		if fns == nil {
			if k, ok := a.(*ssa.Const); ok && k.IsNil() {
				continue
			}
			return true
		}
		for _, f := range fns {
			if ShortName(f) == target || c.fnMayReach(f, target, map[*ssa.Function]bool{}) {
				return true
			}
		}
	}
	if cc.IsInvoke() {
		// the invoke itself is counted by traceCall: only what the
		// implementations do matters (marker seen[nil])
		return c.invokeMayReach(cc.Method, calleeName(cc), target, map[*ssa.Function]bool{nil: true})
	}
	callee := cc.StaticCallee()
	if callee == nil {
		// a function value that is, on every path, one of a few closures or
		// functions named in this function (var f func(..); if .. { f = func.. } else { f = func.. })
		if fns := funcTargets(cc.Value, 0); len(fns) > 0 {
			for _, f := range fns {
				if ShortName(f) == target || c.fnMayReach(f, target, map[*ssa.Function]bool{}) {
					return true
				}
			}
			return false
		}
		if d, ok := c.closures[T{}.S]; ok && d != nil {
			callee = d.fn
		} else {
			return true
		}
	}
	if ShortName(callee) == target {
		// the call itself is counted by traceCall; only recursion re-enters
		return c.bodyMayReach(callee, target)
	}
	return c.fnMayReach(callee, target, map[*ssa.Function]bool{})
}

func (c *Ctx) bodyMayReach(fn *ssa.Function, target string) bool {
	seen := map[*ssa.Function]bool{}
	for _, b := range fn.Blocks {
		for _, in := range b.Instrs {
			if call, ok := in.(ssa.CallInstruction); ok {
				cc := call.Common()
				if _, isB := cc.Value.(*ssa.Builtin); isB {
					continue
				}
				if cc.IsInvoke() {
					if c.invokeMayReach(cc.Method, calleeName(cc), target, seen) {
						return true
					}
				} else if cal := cc.StaticCallee(); cal != nil {
					if c.fnMayReach(cal, target, seen) {
						return true
					}
				}
			}
		}
	}
	return false
}

func methodOf(short string) string {
	if i := strings.LastIndex(short, "."); i >= 0 {
		return short[i+1:]
	}
	return short
}

func sameSig(a, b *types.Signature) bool {
	return types.Identical(types.NewSignatureType(nil, nil, nil, a.Params(), a.Results(), a.Variadic()),
		types.NewSignatureType(nil, nil, nil, b.Params(), b.Results(), b.Variadic()))
}

func (c *Ctx) invokeMayReach(m *types.Func, name, target string, seen map[*ssa.Function]bool) bool {
	method := m.Name()
	if name == target {
		if _, top := seen[nil]; !top {
			return true
		}
	}
	msig := m.Type().(*types.Signature)
	// every in-repo method with that name and signature may be the implementation
	for n, f := range c.W.Funcs {
		if InRepo(f) && f.Signature.Recv() != nil && methodOf(n) == method && sameSig(f.Signature, msig) {
			delete(seen, nil)
			if c.fnMayReach(f, target, seen) {
				return true
			}
		}
	}
	return false
}

func (c *Ctx) fnMayReach(fn *ssa.Function, target string, seen map[*ssa.Function]bool) bool {
	if fn == nil {
		return true
	}
	if ShortName(fn) == target {
		return true
	}
	if seen[fn] || !InRepo(fn) {
		return false
	}
	seen[fn] = true
	key := ShortName(fn) + "->" + target
	if v, ok := c.mayCallMemo[key]; ok {
		return v
	}
	res := false
	for _, b := range fn.Blocks {
		for _, in := range b.Instrs {
			var cc *ssa.CallCommon
			switch x := in.(type) {
			case *ssa.Call:
				cc = &x.Call
			case *ssa.Defer:
				cc = &x.Call
			case *ssa.Go:
				cc = &x.Call
			case *ssa.MakeClosure:
				if c.fnMayReach(x.Fn.(*ssa.Function), target, seen) {
					res = true
				}
				continue
			default:
				continue
			}
			if _, isB := cc.Value.(*ssa.Builtin); isB {
				continue
			}
			if cc.IsInvoke() {
				if methodInRepo(cc.Method) || methodOf(target) == cc.Method.Name() {
					if c.invokeMayReach(cc.Method, calleeName(cc), target, seen) {
						res = true
					}
				}
				continue
			}
			if callee := cc.StaticCallee(); callee != nil {
				if c.fnMayReach(callee, target, seen) {
					res = true
				}
				continue
			}
			// dynamic call of a function value: in-repo function values are
			// closures, whose bodies are scanned where they are created
			// (MakeClosure above); callbacks supplied by library users are
			// assumed not to re-enter the tracked functions (listed assumption).
		}
		if res {
			break
		}
	}
	c.mayCallMemo[key] = res
	return res
}

func methodInRepo(m *types.Func) bool {
	return m != nil && m.Pkg() != nil && strings.HasPrefix(m.Pkg().Path(), ModPath)
}

// jsonField is the value encoding/json gives a struct member named name when
// decoding data (uninterpreted; one function per member sort).
func (c *Ctx) jsonField(data T, name string, t types.Type, st *State) T {
	sortS := c.R.SortOf(t)
	fn := "jsonfield_" + sortID(sortS)
	c.R.UFun(fn, fmt.Sprintf("(declare-fun %s (Slice Str) %s)", fn, sortS))
	v := app(sortS, fn, data, c.R.StrLit(name))
	if st != nil {
		c.assumeValid(st, v, t)
	}
	return v
}

// jsonElem / jsonLen: element i and length of the wire array encoding/json decodes
// into a slice of a basic type (uninterpreted; one function per element sort).
func (c *Ctx) jsonElem(data, i T, t types.Type) T {
	sortS := c.R.SortOf(t)
	fn := "jsonelem_" + sortID(sortS)
	c.R.UFun(fn, fmt.Sprintf("(declare-fun %s (Slice Int) %s)", fn, sortS))
	return app(sortS, fn, data, i)
}

func (c *Ctx) jsonLen(data T) T {
	c.R.UFun("jsonlen", "(declare-fun jsonlen (Slice) Int)")
	return app("Int", "jsonlen", data)
}

// declRT: reflect.MapOf / PtrTo / SliceOf as free constructors on reflect.Type values.
func (c *Ctx) declRT() {
	c.R.UFun("rt_mapof", "(declare-fun rt_mapof (Iface Iface) Iface)\n(declare-fun rt_ptrto (Iface) Iface)\n(declare-fun rt_sliceof (Iface) Iface)\n"+
		"(assert (forall ((a Iface) (b Iface)) (! (not ((_ is inil) (rt_mapof a b))) :pattern ((rt_mapof a b)))))\n"+
		"(assert (forall ((a Iface)) (! (not ((_ is inil) (rt_ptrto a))) :pattern ((rt_ptrto a)))))\n"+
		"(assert (forall ((a Iface)) (! (not ((_ is inil) (rt_sliceof a))) :pattern ((rt_sliceof a)))))")
}

// sprintfModel: fmt.Sprintf with a constant format made of literal text and %s
// verbs, every operand a string: the result is the left-to-right concatenation
// (the same term a Go expression "lit" + a + "lit" + b builds).
func (fr *frame) sprintfModel(cc *ssa.CallCommon) (T, bool) {
	c := fr.c
	k, ok := cc.Args[0].(*ssa.Const)
	if !ok || k.Value == nil || k.Value.Kind() != constant.String {
		return T{}, false
	}
	format := constant.StringVal(k.Value)
	var elems []ssa.Value
	if len(cc.Args) > 1 {
		var ok2 bool
		elems, ok2 = variadicElems(cc.Args[1])
		if !ok2 {
			return T{}, false
		}
	}
	var parts []T
	lit := ""
	ai := 0
	for i := 0; i < len(format); i++ {
		if format[i] != '%' {
			lit += string(format[i])
			continue
		}
		if i+1 >= len(format) {
			return T{}, false
		}
		i++
		switch format[i] {
		case '%':
			lit += "%"
		case 's':
			if ai >= len(elems) {
				return T{}, false
			}
			mi, ok := elems[ai].(*ssa.MakeInterface)
			if !ok {
				return T{}, false
			}
			if b, ok := under(mi.X.Type()).(*types.Basic); !ok || b.Kind() != types.String {
				return T{}, false
			}
			if lit != "" {
				parts = append(parts, c.R.StrLit(lit))
				lit = ""
			}
			parts = append(parts, fr.val(mi.X))
			ai++
		default:
			return T{}, false
		}
	}
	if ai != len(elems) {
		return T{}, false
	}
	if lit != "" {
		parts = append(parts, c.R.StrLit(lit))
	}
	if len(parts) == 0 {
		return c.R.StrLit(""), true
	}
	r := parts[0]
	for _, p := range parts[1:] {
		r = app("Str", "strcat", r, p)
	}
	return r, true
}

// variadicElems: the values stored into the backing array of a variadic
// argument slice built at the call site (new [n]T; store each; slice).
func variadicElems(v ssa.Value) ([]ssa.Value, bool) {
	sl, ok := v.(*ssa.Slice)
	if !ok {
		if k, isConst := v.(*ssa.Const); isConst && k.IsNil() {
			return nil, true
		}
		return nil, false
	}
	al, ok := sl.X.(*ssa.Alloc)
	if !ok {
		return nil, false
	}
	arr, ok := under(deref(al.Type())).(*types.Array)
	if !ok {
		return nil, false
	}
	out := make([]ssa.Value, arr.Len())
	refs := al.Referrers()
	if refs == nil {
		return nil, false
	}
	for _, in := range *refs {
		ia, ok := in.(*ssa.IndexAddr)
		if !ok {
			continue
		}
		k, ok := ia.Index.(*ssa.Const)
		if !ok {
			return nil, false
		}
		idx := k.Int64()
		if ir := ia.Referrers(); ir != nil {
			for _, u := range *ir {
				if st, ok := u.(*ssa.Store); ok && st.Addr == ia {
					if idx < 0 || idx >= int64(len(out)) || out[idx] != nil {
						return nil, false
					}
					out[idx] = st.Val
				}
			}
		}
	}
	for _, o := range out {
		if o == nil {
			return nil, false
		}
	}
	return out, true
}

// funcTargets: the functions a func-typed value can denote, when that is
// syntactically evident (closure literals, named functions, phis of those);
// nil when unknown.
func funcTargets(v ssa.Value, depth int) []*ssa.Function {
	if depth > 6 {
		return nil
	}
	switch x := v.(type) {
	case *ssa.Function:
		return []*ssa.Function{x}
	case *ssa.MakeClosure:
		if f, ok := x.Fn.(*ssa.Function); ok {
			return []*ssa.Function{f}
		}
	case *ssa.ChangeType:
		return funcTargets(x.X, depth+1)
	case *ssa.Phi:
		var out []*ssa.Function
		for _, e := range x.Edges {
			if k, ok := e.(*ssa.Const); ok && k.IsNil() {
				continue
			}
			fs := funcTargets(e, depth+1)
			if fs == nil {
				return nil
			}
			out = append(out, fs...)
		}
		return out
	}
	return nil
}
