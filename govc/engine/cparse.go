package engine

import (
	"fmt"
	"go/types"
	"strings"
	"unicode"
)

// Expr is a contract expression.
type Expr interface{}

type (
	EIdent  struct{ Name string }
	EInt    struct{ V string }
	EStr    struct{ V string }
	EBool   struct{ V bool }
	ENil    struct{}
	ESel    struct{ X Expr; Name string }
	EIndex  struct{ X, I Expr }
	EStarIx struct{ X Expr } // x[*] in modifies
	ECall   struct{ Fn string; Args []Expr }
	EUn     struct{ Op string; X Expr }
	EBin    struct{ Op string; X, Y Expr }
	EQuant  struct {
		Forall bool
		Vars   []string
		Types  []string
		Body   Expr
	}
	EDeref struct{ X Expr }
	EAddr  struct{ X Expr }
)

type tok struct {
	k string // ident int str op eof
	v string
}

func lex(s string) ([]tok, error) {
	var out []tok
	i := 0
	for i < len(s) {
		ch := s[i]
		switch {
		case ch == ' ' || ch == '\t':
			i++
		case unicode.IsLetter(rune(ch)) || ch == '_':
			j := i
			for j < len(s) && (unicode.IsLetter(rune(s[j])) || unicode.IsDigit(rune(s[j])) || s[j] == '_' || s[j] == '$') {
				j++
			}
			out = append(out, tok{"ident", s[i:j]})
			i = j
		case unicode.IsDigit(rune(ch)):
			j := i
			for j < len(s) && (unicode.IsDigit(rune(s[j]))) {
				j++
			}
			out = append(out, tok{"int", s[i:j]})
			i = j
		case ch == '"':
			j := i + 1
			for j < len(s) && s[j] != '"' {
				if s[j] == '\\' {
					j++
				}
				j++
			}
			if j >= len(s) {
				return nil, fmt.Errorf("unterminated string")
			}
			out = append(out, tok{"str", s[i+1 : j]})
			i = j + 1
		default:
			ops := []string{"<==>", "==>", "::", "==", "!=", "<=", ">=", "&&", "||", "[*]"}
			matched := false
			for _, o := range ops {
				if strings.HasPrefix(s[i:], o) {
					out = append(out, tok{"op", o})
					i += len(o)
					matched = true
					break
				}
			}
			if matched {
				continue
			}
			if strings.ContainsRune("()[]{}.,:<>!+-*/%&?", rune(ch)) {
				out = append(out, tok{"op", string(ch)})
				i++
				continue
			}
			return nil, fmt.Errorf("unexpected character %q", ch)
		}
	}
	out = append(out, tok{"eof", ""})
	return out, nil
}

type parser struct {
	toks []tok
	p    int
	src  string
}

func ParseExpr(s string) (Expr, error) {
	toks, err := lex(s)
	if err != nil {
		return nil, err
	}
	p := &parser{toks: toks, src: s}
	e, err := p.expr(0)
	if err != nil {
		return nil, err
	}
	if p.peek().k != "eof" {
		return nil, fmt.Errorf("unexpected %q", p.peek().v)
	}
	return e, nil
}

func (p *parser) peek() tok { return p.toks[p.p] }
func (p *parser) next() tok { t := p.toks[p.p]; p.p++; return t }
func (p *parser) accept(v string) bool {
	if p.peek().k == "op" && p.peek().v == v {
		p.p++
		return true
	}
	return false
}
func (p *parser) expect(v string) error {
	if !p.accept(v) {
		return fmt.Errorf("expected %q, found %q", v, p.peek().v)
	}
	return nil
}

var binPrec = map[string]int{
	"<==>": 1, "==>": 2, "||": 3, "&&": 4,
	"==": 5, "!=": 5, "<": 5, "<=": 5, ">": 5, ">=": 5, "in": 5,
	"+": 6, "-": 6, "*": 7, "/": 7, "%": 7,
}

func (p *parser) expr(minPrec int) (Expr, error) {
	// quantifiers extend as far right as possible
	if p.peek().k == "ident" && (p.peek().v == "forall" || p.peek().v == "exists") {
		return p.quant()
	}
	lhs, err := p.unary()
	if err != nil {
		return nil, err
	}
	for {
		t := p.peek()
		op := t.v
		if !(t.k == "op" || (t.k == "ident" && t.v == "in")) {
			break
		}
		prec, ok := binPrec[op]
		if !ok || prec < minPrec {
			break
		}
		p.next()
		next := prec + 1
		if op == "==>" { // right associative
			next = prec
		}
		rhs, err := p.expr(next)
		if err != nil {
			return nil, err
		}
		lhs = &EBin{Op: op, X: lhs, Y: rhs}
	}
	return lhs, nil
}

func (p *parser) quant() (Expr, error) {
	q := &EQuant{Forall: p.next().v == "forall"}
	for {
		t := p.next()
		if t.k != "ident" {
			return nil, fmt.Errorf("quantifier: expected variable, found %q", t.v)
		}
		if err := p.expect(":"); err != nil {
			return nil, err
		}
		// type: tokens up to ',' or '::' at depth 0
		var sb strings.Builder
		depth := 0
		for {
			t := p.peek()
			if t.k == "eof" {
				return nil, fmt.Errorf("quantifier: missing ::")
			}
			if depth == 0 && t.k == "op" && (t.v == "," || t.v == "::") {
				break
			}
			if t.k == "op" && (t.v == "[" || t.v == "(" || t.v == "{") {
				depth++
			}
			if t.k == "op" && (t.v == "]" || t.v == ")" || t.v == "}") {
				depth--
			}
			sb.WriteString(t.v)
			p.next()
		}
		q.Vars = append(q.Vars, t.v)
		q.Types = append(q.Types, sb.String())
		if p.accept(",") {
			continue
		}
		if err := p.expect("::"); err != nil {
			return nil, err
		}
		break
	}
	body, err := p.expr(0)
	if err != nil {
		return nil, err
	}
	q.Body = body
	return q, nil
}

func (p *parser) unary() (Expr, error) {
	if p.accept("!") {
		x, err := p.unary()
		if err != nil {
			return nil, err
		}
		return &EUn{Op: "!", X: x}, nil
	}
	if p.accept("-") {
		x, err := p.unary()
		if err != nil {
			return nil, err
		}
		return &EUn{Op: "-", X: x}, nil
	}
	if p.accept("*") {
		x, err := p.unary()
		if err != nil {
			return nil, err
		}
		return &EDeref{X: x}, nil
	}
	if p.accept("&") {
		x, err := p.unary()
		if err != nil {
			return nil, err
		}
		return &EAddr{X: x}, nil
	}
	return p.postfix()
}

func (p *parser) postfix() (Expr, error) {
	x, err := p.primary()
	if err != nil {
		return nil, err
	}
	for {
		switch {
		case p.accept("."):
			t := p.next()
			if t.k != "ident" {
				return nil, fmt.Errorf("expected field name after '.'")
			}
			x = &ESel{X: x, Name: t.v}
		case p.accept("[*]"):
			x = &EStarIx{X: x}
		case p.accept("["):
			i, err := p.expr(0)
			if err != nil {
				return nil, err
			}
			if err := p.expect("]"); err != nil {
				return nil, err
			}
			x = &EIndex{X: x, I: i}
		default:
			return x, nil
		}
	}
}

func (p *parser) primary() (Expr, error) {
	t := p.next()
	switch t.k {
	case "int":
		return &EInt{V: t.v}, nil
	case "str":
		return &EStr{V: t.v}, nil
	case "ident":
		switch t.v {
		case "true":
			return &EBool{V: true}, nil
		case "false":
			return &EBool{V: false}, nil
		case "nil":
			return &ENil{}, nil
		}
		if p.peek().k == "op" && p.peek().v == "(" {
			p.next()
			var args []Expr
			if !p.accept(")") {
				for {
					a, err := p.expr(0)
					if err != nil {
						return nil, err
					}
					args = append(args, a)
					if p.accept(",") {
						continue
					}
					if err := p.expect(")"); err != nil {
						return nil, err
					}
					break
				}
			}
			return &ECall{Fn: t.v, Args: args}, nil
		}
		return &EIdent{Name: t.v}, nil
	case "op":
		if t.v == "(" {
			e, err := p.expr(0)
			if err != nil {
				return nil, err
			}
			if err := p.expect(")"); err != nil {
				return nil, err
			}
			return e, nil
		}
	}
	return nil, fmt.Errorf("unexpected %q", t.v)
}

// ---- type expressions ---------------------------------------------------------------

// ParseType resolves a Go type expression (subset: names, pkg.Name, *T, []T,
// map[K]V, interface{}) in the scope of package pkgPath.
func (w *World) ParseType(pkgPath, s string) (types.Type, error) {
	s = strings.TrimSpace(s)
	switch {
	case strings.HasPrefix(s, "*"):
		t, err := w.ParseType(pkgPath, s[1:])
		if err != nil {
			return nil, err
		}
		return types.NewPointer(t), nil
	case strings.HasPrefix(s, "[]"):
		t, err := w.ParseType(pkgPath, s[2:])
		if err != nil {
			return nil, err
		}
		return types.NewSlice(t), nil
	case strings.HasPrefix(s, "map["):
		rb := matchBracket(s, 3)
		if rb < 0 {
			return nil, fmt.Errorf("bad map type %q", s)
		}
		k, err := w.ParseType(pkgPath, s[4:rb])
		if err != nil {
			return nil, err
		}
		v, err := w.ParseType(pkgPath, s[rb+1:])
		if err != nil {
			return nil, err
		}
		return types.NewMap(k, v), nil
	case s == "interface{}" || s == "any":
		return types.NewInterfaceType(nil, nil), nil
	case s == "error":
		return types.Universe.Lookup("error").Type(), nil
	}
	if i := strings.Index(s, "."); i > 0 {
		pn, tn := s[:i], s[i+1:]
		for path, p := range w.TypePkgs {
			if p.Name() == pn && (strings.HasPrefix(path, ModPath) || !strings.Contains(path, "/") || strings.HasSuffix(path, "/"+pn)) {
				if o := p.Scope().Lookup(tn); o != nil {
					if _, ok := o.(*types.TypeName); ok {
						return o.Type(), nil
					}
				}
			}
		}
		return nil, fmt.Errorf("unknown type %s", s)
	}
	if o := types.Universe.Lookup(s); o != nil {
		if _, ok := o.(*types.TypeName); ok {
			return o.Type(), nil
		}
	}
	if p := w.TypePkgs[pkgPath]; p != nil {
		if o := p.Scope().Lookup(s); o != nil {
			if _, ok := o.(*types.TypeName); ok {
				return o.Type(), nil
			}
		}
	}
	return nil, fmt.Errorf("unknown type %s in %s", s, pkgPath)
}

func matchBracket(s string, lb int) int {
	d := 0
	for i := lb; i < len(s); i++ {
		switch s[i] {
		case '[':
			d++
		case ']':
			d--
			if d == 0 {
				return i
			}
		}
	}
	return -1
}
