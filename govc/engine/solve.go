package engine

import (
	"bytes"
	"context"
	"fmt"
	"os"
	"os/exec"
	"path/filepath"
	"strings"
	"time"
)

// Solver describes one back end.
type Solver struct {
	Name string
	Cmd  func(file string, timeoutMs int) []string
}

var Solvers = []Solver{
	{"z3-5.1.0", func(f string, ms int) []string { return []string{"z3-new", fmt.Sprintf("-t:%d", ms), f} }},
	{"z3-4.8.12", func(f string, ms int) []string { return []string{"z3", fmt.Sprintf("-t:%d", ms), f} }},
	{"cvc5-1.0", func(f string, ms int) []string {
		return []string{"cvc5", "--incremental", fmt.Sprintf("--tlimit-per=%d", ms), "--lang=smt2", f}
	}},
}

// runSolver runs a script and returns one verdict per check-sat.
func runSolver(s Solver, file string, n int, timeoutMs int) ([]string, time.Duration) {
	return runSolverCtx(context.Background(), s, file, n, timeoutMs)
}

// runSolverCtx: as runSolver; the solver process is killed when parent is cancelled.
func runSolverCtx(parent context.Context, s Solver, file string, n int, timeoutMs int) ([]string, time.Duration) {
	start := time.Now()
	args := s.Cmd(file, timeoutMs)
	ctx, cancel := context.WithTimeout(parent, time.Duration(timeoutMs*(n+2)+20000)*time.Millisecond)
	defer cancel()
	cmd := exec.CommandContext(ctx, args[0], args[1:]...)
	var out bytes.Buffer
	cmd.Stdout = &out
	cmd.Stderr = &out
	cmd.Run()
	var res []string
	for _, ln := range strings.Split(out.String(), "\n") {
		ln = strings.TrimSpace(ln)
		switch ln {
		case "sat", "unsat", "unknown", "timeout":
			res = append(res, ln)
		default:
			if strings.HasPrefix(ln, "(error") && len(res) < n {
				// record the first error for diagnostics
				if os.Getenv("GOVC_DEBUG") != "" {
					fmt.Fprintf(os.Stderr, "[%s] %s: %s\n", s.Name, file, ln)
				}
			}
		}
	}
	for len(res) < n {
		res = append(res, "error")
	}
	return res[:n], time.Since(start)
}

// SolveOptions controls the discharge of one function's obligations.
type SolveOptions struct {
	WorkDir   string
	TimeoutMs int
	CrossCheck bool // require a second solver to agree (thorough)
}

// Solve discharges the obligations of fr: z3 5.1 first, the others on what
// is left.
func Solve(fr *FuncResult, so SolveOptions) {
	if len(fr.Obls) == 0 {
		return
	}
	os.MkdirAll(so.WorkDir, 0o755)
	base := filepath.Join(so.WorkDir, sanitize(fr.Func))
	file := base + ".smt2"
	os.WriteFile(file, []byte(fr.Script), 0o644)
	n := len(fr.Obls)
	pending := map[int]bool{}
	covers := map[int]bool{}
	for i, o := range fr.Obls {
		if o.Cover {
			covers[i] = true
		} else {
			pending[i] = true
		}
	}
	if len(covers) > 0 {
		// covers only fail on "unsat"; a short timeout is enough
		f := base + ".covers.smt2"
		os.WriteFile(f, []byte(fr.Ctx.Script(covers)), 0o644)
		var idxs []int
		for i := 0; i < n; i++ {
			if covers[i] {
				idxs = append(idxs, i)
			}
		}
		res, dur := runSolver(Solvers[0], f, len(idxs), 300)
		for k, i := range idxs {
			o := fr.Obls[i]
			o.Solver = Solvers[0].Name
			o.TimeMs = dur.Milliseconds() / int64(len(idxs))
			if res[k] == "unsat" {
				o.Result = "cover-unreachable"
			} else {
				o.Result = "cover-ok"
			}
		}
	}
	if len(pending) == 0 {
		return
	}
	os.WriteFile(file, []byte(fr.Ctx.Script(pending)), 0o644)
	for si, s := range Solvers {
		if len(pending) == 0 && !so.CrossCheck {
			break
		}
		f := file
		idxs := make([]int, 0, n)
		if si == 0 || so.CrossCheck {
			for i := 0; i < n; i++ {
				if !covers[i] {
					idxs = append(idxs, i)
				}
			}
		} else {
			for i := 0; i < n; i++ {
				if pending[i] {
					idxs = append(idxs, i)
				}
			}
			f = fmt.Sprintf("%s.retry%d.smt2", base, si)
			os.WriteFile(f, []byte(fr.Ctx.Script(pending)), 0o644)
		}
		if len(idxs) == 0 {
			continue
		}
		res, dur := runSolver(s, f, len(idxs), so.TimeoutMs)
		per := dur.Milliseconds() / int64(len(idxs))
		for k, i := range idxs {
			o := fr.Obls[i]
			v := res[k]
			want := "unsat"
			if o.Cover {
				// a cover passes unless it is proved unreachable
				if v == "unsat" {
					if o.Result == "" || o.Result == "cover-ok" {
						o.Result, o.Solver = "cover-unreachable", s.Name
					}
				} else if o.Result == "" {
					o.Result, o.Solver = "cover-ok", s.Name
					delete(pending, i)
				}
				if v == "sat" {
					o.Result, o.Solver = "cover-ok", s.Name
					delete(pending, i)
				}
				o.TimeMs += per
				continue
			}
			if v == want {
				if o.Result != "unsat" {
					o.Result, o.Solver = "unsat", s.Name
				} else if so.CrossCheck {
					o.Solver += "+" + s.Name
				}
				delete(pending, i)
			} else if o.Result != "unsat" {
				if o.Result == "" || v == "sat" {
					o.Result, o.Solver = v, s.Name
				}
			}
			o.TimeMs += per
		}
	}
	// covers that no solver proved unreachable are fine
	for _, o := range fr.Obls {
		if o.Cover && o.Result == "cover-unreachable" {
			// keep: vacuity alarm
		}
	}
}

// Discharged reports whether the obligation is proved (or the cover passed).
func (o *Obligation) Discharged() bool {
	if o.Cover {
		return o.Result == "cover-ok"
	}
	return o.Result == "unsat"
}

// ModelFor re-runs one obligation alone with (get-model) on the solvers and
// returns the first model found.
func ModelFor(fr *FuncResult, o *Obligation, so SolveOptions) (string, string) {
	sel := map[int]bool{o.Index: true}
	script := fr.Ctx.Script(sel)
	script = strings.Replace(script, "(check-sat)\n(pop 1)", "(check-sat)\n(get-model)\n(pop 1)", 1)
	f := filepath.Join(so.WorkDir, sanitize(fr.Func)+fmt.Sprintf(".model%d.smt2", o.Index))
	os.WriteFile(f, []byte(script), 0o644)
	// ground variant: quantified assumptions dropped (enlarges the model space;
	// such a model is only a candidate and must be confirmed by replay)
	var gb strings.Builder
	for _, ln := range strings.Split(script, "\n") {
		if strings.HasPrefix(ln, "(assert") && (strings.Contains(ln, "(forall ") || strings.Contains(ln, "(exists ")) && !strings.Contains(ln, o.Assert) {
			continue
		}
		gb.WriteString(ln)
		gb.WriteByte('\n')
	}
	gf := filepath.Join(so.WorkDir, sanitize(fr.Func)+fmt.Sprintf(".gmodel%d.smt2", o.Index))
	os.WriteFile(gf, []byte(gb.String()), 0o644)
	for pass, file := range []string{f, gf} {
		_ = pass
		for _, s := range Solvers[:1] {
			args := s.Cmd(file, 3000)
			ctx, cancel := context.WithTimeout(context.Background(), 8*time.Second)
			cmd := exec.CommandContext(ctx, args[0], args[1:]...)
			var out bytes.Buffer
			cmd.Stdout = &out
			cmd.Run()
			cancel()
			txt := out.String()
			if strings.HasPrefix(strings.TrimSpace(txt), "sat") {
				if file == gf {
					return txt, s.Name + " (ground variant: quantified assumptions dropped)"
				}
				return txt, s.Name
			}
		}
	}
	return "", ""
}

func modelForOld(fr *FuncResult, o *Obligation, so SolveOptions, f string) (string, string) {
	for _, s := range Solvers {
		args := s.Cmd(f, so.TimeoutMs)
		if s.Name == "cvc5-1.0" {
			args = append(args[:len(args)-1], "--produce-models", f)
		}
		ctx, cancel := context.WithTimeout(context.Background(), time.Duration(so.TimeoutMs+20000)*time.Millisecond)
		cmd := exec.CommandContext(ctx, args[0], args[1:]...)
		var out bytes.Buffer
		cmd.Stdout = &out
		cmd.Run()
		cancel()
		txt := out.String()
		if strings.HasPrefix(strings.TrimSpace(txt), "sat") {
			return txt, s.Name
		}
	}
	return "", ""
}
