package engine

import (
	"os"
	"fmt"
	"go/constant"
	"go/token"
	"go/types"
	"math/big"
	"strings"

	"golang.org/x/tools/go/ssa"
)

func (c *Ctx) constVal(k *ssa.Const) T {
	t := k.Type()
	if k.Value == nil {
		return c.R.Zero(t)
	}
	switch c.R.SortOf(t) {
	case "Int":
		if i, ok := constant.Int64Val(constant.ToInt(k.Value)); ok {
			return IntLit(i)
		}
		if u, ok := constant.Uint64Val(constant.ToInt(k.Value)); ok {
			return T{fmt.Sprintf("%d", u), "Int"}
		}
		return T{k.Value.ExactString(), "Int"}
	case "Bool":
		if constant.BoolVal(k.Value) {
			return True
		}
		return False
	case "Str":
		return c.R.StrLit(constant.StringVal(k.Value))
	case "Real":
		r, _ := new(big.Rat).SetString(k.Value.ExactString())
		if r == nil {
			f, _ := constant.Float64Val(k.Value)
			r = new(big.Rat).SetFloat64(f)
		}
		if r == nil {
			return T{"0.0", "Real"}
		}
		num, den := r.Num(), r.Denom()
		s := fmt.Sprintf("(/ %s.0 %s.0)", new(big.Int).Abs(num).String(), den.String())
		if num.Sign() < 0 {
			s = "(- " + s + ")"
		}
		return T{s, "Real"}
	}
	return c.R.Zero(t)
}

func (c *Ctx) globalAddr(g *ssa.Global) T {
	name := "glob_" + sanitize(shorten(g.String()))
	if !c.globals[name] {
		c.globals[name] = true
		c.R.UFun(name, fmt.Sprintf("(declare-const %s Ref)\n(assert ((_ is robj) %s))", name, name))
		c.R.Heap(HAlloc, ArraySort("Ref", "Bool"))
		// package-level variables exist when the function is entered (emitted after the heap declarations)
		c.R.axioms = append(c.R.axioms, fmt.Sprintf("(assert (select Alloc_0 %s))", name))
	}
	return T{name, "Ref"}
}

func (c *Ctx) funcValue(f *ssa.Function) T {
	name := "fn_" + sanitize(ShortName(f))
	if !c.globals[name] {
		c.globals[name] = true
		c.R.UFun(name, fmt.Sprintf("(declare-const %s Ref)\n(assert ((_ is robj) %s))", name, name))
	}
	c.closures[name] = &closureDesc{fn: f}
	return T{name, "Ref"}
}

// ---- typed memory access ------------------------------------------------------

// load reads a value of Go type t at address a.
func (c *Ctx) load(st *State, a T, t types.Type) T {
	switch u := under(t).(type) {
	case *types.Struct:
		si := c.R.structOf(t)
		if len(si.Fields) == 0 {
			return T{"mk_" + si.Name, si.Name}
		}
		var args []T
		for _, f := range si.Fields {
			args = append(args, c.load(st, Fld(a, f.FID), f.Typ))
		}
		return app(si.Name, "mk_"+si.Name, args...)
	case *types.Array:
		es := c.R.SortOf(u.Elem())
		arr := T{"((as const " + ArraySort("Int", es) + ") " + c.R.Zero(u.Elem()).S + ")", ArraySort("Int", es)}
		if u.Len() > 16 {
			return c.fresh("arr", arr.Sort)
		}
		for i := int64(0); i < u.Len(); i++ {
			arr = Store(arr, IntLit(i), c.load(st, Idx(a, IntLit(i)), u.Elem()))
		}
		return arr
	}
	h := c.R.CellHeapT(t)
	v := Select(c.getHeap(st, h), a)
	return v
}

// store writes value v of Go type t at address a.
func (c *Ctx) store(st *State, a T, t types.Type, v T) {
	switch u := under(t).(type) {
	case *types.Struct:
		si := c.R.structOf(t)
		for i, f := range si.Fields {
			c.store(st, Fld(a, f.FID), f.Typ, app(f.Sort, fmt.Sprintf("%s_f%d", si.Name, i), v))
		}
		return
	case *types.Array:
		if u.Len() > 16 {
			c.unsupported("store of large array")
			return
		}
		for i := int64(0); i < u.Len(); i++ {
			c.store(st, Idx(a, IntLit(i)), u.Elem(), Select(v, IntLit(i)))
		}
		return
	}
	h := c.R.CellHeapT(t)
	c.setHeap(st, h, Store(c.getHeap(st, h), a, v))
}

func (fr *frame) setVal(v ssa.Value, t T) {
	fr.vals[v] = fr.c.name(v.Name(), t)
}

func (fr *frame) nilCheck(st *State, p T, what string, pos token.Pos) {
	if fr.c.Opt.Safety {
		fr.c.oblige(st, "nil-deref", what, Not(Eq(p, Nil)), pos)
	} else {
		fr.c.assume(st, Not(Eq(p, Nil)))
	}
}

func (fr *frame) safety(st *State, kind, what string, cond T, pos token.Pos) {
	if fr.c.Opt.Safety {
		fr.c.oblige(st, kind, what, cond, pos)
	} else {
		fr.c.assume(st, cond)
	}
}

func le(a, b T) T { return app("Bool", "<=", a, b) }
func lt(a, b T) T { return app("Bool", "<", a, b) }
func add(a, b T) T {
	if b.S == "0" {
		return a
	}
	if a.S == "0" {
		return b
	}
	return app("Int", "+", a, b)
}
func sub(a, b T) T {
	if b.S == "0" {
		return a
	}
	return app("Int", "-", a, b)
}

func (fr *frame) srcText(in ssa.Instruction) string {
	// best effort: position only
	return fr.c.W.Pos(in.Pos())
}

func operandName(v ssa.Value) string {
	switch x := v.(type) {
	case *ssa.Parameter:
		return x.Name()
	case *ssa.FieldAddr:
		st := under(deref(x.X.Type())).(*types.Struct)
		return operandName(x.X) + "." + st.Field(x.Field).Name()
	case *ssa.Field:
		st := under(x.X.Type()).(*types.Struct)
		return operandName(x.X) + "." + st.Field(x.Field).Name()
	case *ssa.UnOp:
		if x.Op == token.MUL {
			return operandName(x.X)
		}
	case *ssa.Alloc:
		if x.Comment != "" {
			return x.Comment
		}
	case *ssa.Phi:
		if x.Comment != "" {
			return x.Comment
		}
	case *ssa.Const:
		return x.Name()
	case *ssa.IndexAddr:
		return operandName(x.X) + "[" + operandName(x.Index) + "]"
	case *ssa.Extract:
		return operandName(x.Tuple) + fmt.Sprintf("#%d", x.Index)
	case *ssa.Call:
		if f := x.Call.StaticCallee(); f != nil {
			return f.Name() + "()"
		}
		if x.Call.IsInvoke() {
			return x.Call.Method.Name() + "()"
		}
	case *ssa.TypeAssert:
		return operandName(x.X) + ".(" + TypeShort(x.AssertedType) + ")"
	case *ssa.FreeVar:
		return x.Name()
	case *ssa.Global:
		return x.Name()
	case *ssa.Lookup:
		return operandName(x.X) + "[" + operandName(x.Index) + "]"
	case *ssa.Slice:
		return operandName(x.X) + "[:]"
	}
	return v.Name()
}

func deref(t types.Type) types.Type {
	if p, ok := under(t).(*types.Pointer); ok {
		return p.Elem()
	}
	return t
}

func (fr *frame) execInstr(in ssa.Instruction, st *State) {
	c := fr.c
	switch x := in.(type) {
	case *ssa.DebugRef:
		return
	case *ssa.Alloc:
		r := c.newObj(st, "obj_"+x.Comment)
		et := deref(x.Type())
		fr.zeroInit(st, r, et)
		fr.vals[x] = r
		if !escapes(x) || !c.esc.valueEscapes(x) {
			c.stable = append(c.stable, stableCell{addr: r, typ: et, stores: storesTo(x)})
		}
		if !c.esc.valueEscapes(x) {
			c.markPrivate(st, r)
		}
	case *ssa.UnOp:
		fr.execUnOp(x, st)
	case *ssa.BinOp:
		fr.setVal(x, fr.binop(st, x.Op, fr.val(x.X), fr.val(x.Y), x.X.Type(), x, x.Pos()))
	case *ssa.Store:
		a := fr.val(x.Addr)
		fr.nilCheck(st, a, "*"+operandName(x.Addr), x.Pos())
		c.store(st, a, deref(x.Addr.Type()), fr.val(x.Val))
	case *ssa.FieldAddr:
		b := fr.val(x.X)
		fr.nilCheck(st, b, operandName(x), x.Pos())
		fr.setVal(x, Fld(b, c.R.FieldID(deref(x.X.Type()), x.Field)))
	case *ssa.Field:
		si := c.R.structOf(x.X.Type())
		fr.setVal(x, app(si.Fields[x.Field].Sort, fmt.Sprintf("%s_f%d", si.Name, x.Field), fr.val(x.X)))
	case *ssa.IndexAddr:
		b := fr.val(x.X)
		i := fr.val(x.Index)
		switch u := under(x.X.Type()).(type) {
		case *types.Slice:
			fr.safety(st, "index", operandName(x), And(le(IntLit(0), i), lt(i, SLen(b))), x.Pos())
			fr.setVal(x, Elem(b, i))
		case *types.Pointer:
			arr := under(u.Elem()).(*types.Array)
			fr.nilCheck(st, b, operandName(x.X), x.Pos())
			fr.safety(st, "index", operandName(x), And(le(IntLit(0), i), lt(i, IntLit(arr.Len()))), x.Pos())
			fr.setVal(x, Idx(b, i))
		default:
			c.unsupported("IndexAddr on %s", x.X.Type())
			fr.vals[x] = Nil
		}
	case *ssa.Index:
		b := fr.val(x.X)
		i := fr.val(x.Index)
		switch u := under(x.X.Type()).(type) {
		case *types.Array:
			fr.safety(st, "index", operandName(x.X)+"[..]", And(le(IntLit(0), i), lt(i, IntLit(u.Len()))), x.Pos())
			fr.setVal(x, Select(b, i))
		case *types.Basic: // string
			fr.safety(st, "index", operandName(x.X)+"[..]", And(le(IntLit(0), i), lt(i, app("Int", "strlen", b))), x.Pos())
			c.R.UFun("strbyte", "(declare-fun strbyte (Str Int) Int)")
			fr.setVal(x, app("Int", "strbyte", b, i))
		default:
			c.unsupported("Index on %s", x.X.Type())
			fr.vals[x] = c.R.Zero(x.Type())
		}
	case *ssa.Lookup:
		fr.execLookup(x, st)
	case *ssa.MapUpdate:
		m := fr.val(x.Map)
		mt := under(x.Map.Type()).(*types.Map)
		fr.safety(st, "nil-map-write", operandName(x.Map), Not(Eq(m, Nil)), x.Pos())
		fr.hashable(st, fr.val(x.Key), mt.Key(), x.Pos())
		mname := sourceName(x.Map)
		if lk, ok := x.Map.(*ssa.Lookup); ok {
			// a write into an inner map m[k1][k2] = v is named "m[*]"
			mname = sourceName(lk.X) + "[*]"
		}
		if os.Getenv("GOVC_DEBUG") != "" {
			fmt.Fprintf(os.Stderr, "[mapupdate] %s in %s\n", mname, ShortName(fr.fn))
		}
		fr.atCall("mapupdate:"+mname, st, x.Pos(), nil, []T{fr.val(x.Key), fr.val(x.Value)}, x)
		c.traceCall("mapupdate:"+mname, st) // calls("mapupdate:<map>") counts the writes
		c.mapStore(st, m, mt, fr.val(x.Key), fr.val(x.Value))
	case *ssa.MakeMap:
		mt := under(x.Type()).(*types.Map)
		r := c.newObj(st, "map")
		ks := c.R.SortOf(mt.Key())
		dh := c.R.MDomHeapT(mt)
		c.R.MValHeapT(mt)
		c.setHeap(st, dh, Store(c.getHeap(st, dh), r, T{"((as const " + ArraySort(ks, "Bool") + ") false)", ArraySort(ks, "Bool")}))
		fr.vals[x] = r
		if !c.esc.valueEscapes(x) {
			c.localObjs = append(c.localObjs, localObj{ref: r, typ: x.Type()})
			c.markPrivate(st, r)
		}
	case *ssa.MakeSlice:
		ln, cp := fr.val(x.Len), fr.val(x.Cap)
		fr.safety(st, "makeslice", "len/cap", And(le(IntLit(0), ln), le(ln, cp)), x.Pos())
		r := c.newObj(st, "arr")
		et := under(x.Type()).(*types.Slice).Elem()
		if _, isStruct := under(et).(*types.Struct); !isStruct {
			h := c.getHeap(st, c.R.CellHeapT(et))
			c.emit("(assert (forall ((i Int)) (! (= (select %s (ridx %s i)) %s) :pattern ((ridx %s i)))))", h.S, r.S, c.R.Zero(et).S, r.S)
		}
		fr.setVal(x, MkSlice(r, IntLit(0), ln, cp))
		if !c.esc.valueEscapes(x) {
			c.localObjs = append(c.localObjs, localObj{ref: r, typ: x.Type()})
			c.markPrivate(st, r)
		}
	case *ssa.MakeChan:
		fr.vals[x] = c.newObj(st, "chan")
	case *ssa.MakeClosure:
		r := c.newObj(st, "clo")
		var bs []T
		for _, b := range x.Bindings {
			bs = append(bs, fr.val(b))
		}
		c.closures[r.S] = &closureDesc{fn: x.Fn.(*ssa.Function), bindings: bs}
		fr.vals[x] = r
	case *ssa.MakeInterface:
		v := fr.val(x.X)
		fr.setVal(x, MkIface(IntLit(int64(c.R.TypeID(x.X.Type()))), c.R.Box(v)))
	case *ssa.ChangeInterface:
		fr.vals[x] = fr.val(x.X)
	case *ssa.ChangeType:
		fr.setVal(x, c.convertStruct(fr.val(x.X), x.X.Type(), x.Type()))
	case *ssa.Convert:
		fr.execConvert(x, st)
	case *ssa.TypeAssert:
		fr.execTypeAssert(x, st)
	case *ssa.Extract:
		tup, ok := fr.tuples[x.Tuple]
		if !ok || x.Index >= len(tup) {
			c.unsupported("extract from unknown tuple %s in %s", x.Tuple.Name(), ShortName(fr.fn))
			fr.vals[x] = c.R.Zero(x.Type())
			return
		}
		fr.vals[x] = tup[x.Index]
	case *ssa.Slice:
		fr.execSlice(x, st)
	case *ssa.Range:
		fr.execRange(x, st)
	case *ssa.Next:
		fr.execNext(x, st)
	case *ssa.Call:
		res := fr.call(&x.Call, st, x, x.Pos())
		fr.bindResults(x, res)
	case *ssa.Go:
		c.comment("go statement ignored (spawn has no effect on the caller's state)")
		if c.topFrame != nil && c.topFrame.contract != nil && c.topFrame.contract.Sequential {
			c.oblige(st, "go-statement", "the function is declared sequential: no goroutine may be started here", False, x.Pos())
		}
	case *ssa.Defer:
		if len(fr.inLoops[x.Block()]) > 0 {
			// deferred unlocks inside loops are counted in ghost heaps
			switch calleeName(&x.Call) {
			case "sync.(*Mutex).Unlock", "sync.(*RWMutex).Unlock":
				c.lockOp(st, HDefW, fr.val(x.Call.Args[0]), 1)
				fr.loopDefers = true
				return
			case "sync.(*RWMutex).RUnlock":
				c.lockOp(st, HDefR, fr.val(x.Call.Args[0]), 1)
				fr.loopDefers = true
				return
			}
			c.unsupported("defer of %s inside a loop in %s", calleeName(&x.Call), ShortName(fr.fn))
		}
		// evaluate arguments now
		fr.defers = append(fr.defers, &deferRec{guard: c.name("defer_guard", st.pc), call: &x.Call, fr: fr, instr: x})
		fr.snapshotCallArgs(&x.Call)
	case *ssa.RunDefers:
		for _, pr := range [][2]string{{HLockW, HDefW}, {HLockR, HDefR}} {
			if _, ok := c.R.heaps[pr[1]]; !ok || !fr.loopDefers {
				continue
			}
			c.R.Heap(pr[0], ArraySort("Ref", "Int"))
			lk, df := c.getHeap(st, pr[0]), c.getHeap(st, pr[1])
			nl := c.fresh(pr[0], lk.Sort)
			c.emit("(assert (forall ((m Ref)) (! (= (select %s m) (- (select %s m) (select %s m))) :pattern ((select %s m)))))", nl.S, lk.S, df.S, nl.S)
			c.setHeap(st, pr[0], nl)
			c.setHeap(st, pr[1], T{"((as const (Array Ref Int)) 0)", ArraySort("Ref", "Int")})
		}
		for i := len(fr.defers) - 1; i >= 0; i-- {
			d := fr.defers[i]
			// state where the defer was registered runs the call, else skip
			s1 := st.clone()
			s1.pc = And(st.pc, d.guard)
			s2 := st.clone()
			s2.pc = And(st.pc, Not(d.guard))
			fr.call(d.call, s1, nil, d.instr.Pos())
			m := c.merge([]*State{s1, s2})
			st.pc, st.heaps = m.pc, m.heaps
		}
	case *ssa.Send:
		// channel send: no effect on the modelled state; it is visible to the
		// ghost call trace as a call of "chan-send:<operand>"
		name := "chan-send:" + operandName(x.Chan)
		fr.atCall(name, st, x.Pos(), nil, nil, nil)
		c.traceCall(name, st)
	case *ssa.Select:
		var ts []T
		ts = append(ts, c.fresh("sel_idx", "Int"), c.fresh("sel_ok", "Bool"))
		for _, s := range x.States {
			if s.Dir == types.RecvOnly {
				et := under(s.Chan.Type()).(*types.Chan).Elem()
				v := c.fresh("sel_recv", c.R.SortOf(et))
				c.assumeValid(st, v, et)
				ts = append(ts, v)
			}
		}
		n := int64(len(x.States))
		lo := IntLit(0)
		if !x.Blocking {
			lo = IntLit(-1)
		}
		c.assume(st, And(le(lo, ts[0]), lt(ts[0], IntLit(n))))
		fr.tuples[x] = ts
		// ghost trace: a receive case taken counts as a call of "chan-recv:<operand>"
		for i, s := range x.States {
			if s.Dir == types.RecvOnly {
				name := "chan-recv:" + operandName(s.Chan)
				if c.tracked(name) {
					c.R.Heap("Clock", "Int")
					c.R.Heap(traceKey(name), "Int")
					c.R.Heap("Last_"+sanitize(name), "Int")
					c.trackedByKey[sanitize(name)] = name
					taken := Eq(ts[0], IntLit(int64(i)))
					cur := c.getHeap(st, traceKey(name))
					c.setHeap(st, traceKey(name), Ite(taken, add(cur, IntLit(1)), cur))
					clk := c.getHeap(st, "Clock")
					c.setHeap(st, "Clock", Ite(taken, add(clk, IntLit(1)), clk))
					c.setHeap(st, "Last_"+sanitize(name), Ite(taken, c.getHeap(st, "Clock"), c.getHeap(st, "Last_"+sanitize(name))))
				}
			}
		}
	case *ssa.If, *ssa.Jump:
		// handled by edgeState
	case *ssa.Return:
		var vs []T
		for _, r := range x.Results {
			vs = append(vs, fr.val(r))
		}
		fr.rets = append(fr.rets, &retRec{st: st.clone(), vals: vs, pos: x.Pos()})
	case *ssa.Panic:
		if fr.contract == nil || !fr.contract.MayPanic {
			if c.Opt.Safety {
				c.oblige(st, "panic", "explicit panic reachable: "+operandName(x.X), False, x.Pos())
			}
		}
		st.pc = False
	default:
		c.unsupported("instruction %T in %s", in, ShortName(fr.fn))
		if v, ok := in.(ssa.Value); ok {
			fr.vals[v] = c.R.Zero(v.Type())
		}
	}
}

func (fr *frame) bindResults(v ssa.Value, res []T) {
	if tup, ok := v.Type().(*types.Tuple); ok {
		if len(res) != tup.Len() {
			fr.c.unsupported("result arity mismatch at %s", v.Name())
			res = nil
			for i := 0; i < tup.Len(); i++ {
				res = append(res, fr.c.R.Zero(tup.At(i).Type()))
			}
		}
		fr.tuples[v] = res
		return
	}
	if len(res) == 1 {
		fr.vals[v] = res[0]
	} else {
		fr.vals[v] = fr.c.R.Zero(v.Type())
	}
}

func (fr *frame) zeroInit(st *State, r T, t types.Type) {
	c := fr.c
	switch u := under(t).(type) {
	case *types.Array:
		if u.Len() <= 8 {
			for i := int64(0); i < u.Len(); i++ {
				fr.zeroInit(st, Idx(r, IntLit(i)), u.Elem())
			}
		}
		return
	case *types.Struct:
		for i := 0; i < u.NumFields(); i++ {
			fr.zeroInit(st, Fld(r, c.R.FieldID(t, i)), u.Field(i).Type())
		}
		return
	}
	c.store(st, r, t, c.R.Zero(t))
}

func (fr *frame) execUnOp(x *ssa.UnOp, st *State) {
	c := fr.c
	v := fr.val(x.X)
	switch x.Op {
	case token.MUL: // load
		fr.nilCheck(st, v, "*"+operandName(x.X), x.Pos())
		r := c.load(st, v, x.Type())
		r = c.name(x.Name(), r)
		fr.vals[x] = r
		c.assumeValid(st, r, x.Type())
		if r.Sort == "Ref" || r.Sort == "Slice" {
			c.assumeEntryValid(st, v, r, c.R.CellHeapT(x.Type()))
		}
		if r.Sort == "Iface" {
			c.ifaceLoads = append(c.ifaceLoads, r)
			c.assumeJSON(st, r, x.Type())
			if g, ok := x.X.(*ssa.Global); ok && strings.HasPrefix(g.Name(), "Err") && types.Identical(x.Type(), errorType) && c.onlyInitStores(g) {
				// package-level sentinel errors (var ErrX = errors.New(...)) are
				// assigned once in the package initialiser and are non-nil
				c.assume(st, Not(IsNilIface(r)))
				c.Defaults["package-level sentinel errors Err* are non-nil (assigned only by the package initialiser)"] = true
			}
		}
	case token.NOT:
		fr.setVal(x, Not(v))
	case token.SUB:
		if v.Sort == "Real" {
			fr.setVal(x, app("Real", "-", v))
		} else {
			fr.setVal(x, app("Int", "-", v))
		}
	case token.ARROW:
		// a plain receive is visible to the ghost call trace like a receive
		// case of a select: a call of "chan-recv:<operand>"
		{
			name := "chan-recv:" + operandName(x.X)
			fr.atCall(name, st, x.Pos(), nil, nil, nil)
			c.traceCall(name, st)
		}
		if x.CommaOk {
			et := under(x.X.Type()).(*types.Chan).Elem()
			r := c.fresh("recv", c.R.SortOf(et))
			c.assumeValid(st, r, et)
			fr.tuples[x] = []T{r, c.fresh("recv_ok", "Bool")}
		} else {
			r := c.fresh("recv", c.R.SortOf(x.Type()))
			c.assumeValid(st, r, x.Type())
			fr.vals[x] = r
		}
	case token.XOR:
		c.R.UFun("bitnot", "(declare-fun bitnot (Int) Int)")
		fr.setVal(x, app("Int", "bitnot", v))
	default:
		c.unsupported("unop %s", x.Op)
		fr.vals[x] = c.R.Zero(x.Type())
	}
}

func (fr *frame) binop(st *State, op token.Token, a, b T, opndType types.Type, x ssa.Value, pos token.Pos) T {
	c := fr.c
	s := a.Sort
	switch op {
	case token.EQL:
		return fr.equal(a, b, opndType)
	case token.NEQ:
		return Not(fr.equal(a, b, opndType))
	}
	switch s {
	case "Int":
		switch op {
		case token.ADD:
			return app("Int", "+", a, b)
		case token.SUB:
			return app("Int", "-", a, b)
		case token.MUL:
			return app("Int", "*", a, b)
		case token.QUO:
			fr.safety(st, "div-zero", "integer division", Not(Eq(b, IntLit(0))), pos)
			c.R.UFun("godiv", "(define-fun godiv ((a Int) (b Int)) Int (ite (>= a 0) (div a b) (- (div (- a) b))))")
			return app("Int", "godiv", a, b)
		case token.REM:
			fr.safety(st, "div-zero", "integer modulo", Not(Eq(b, IntLit(0))), pos)
			c.R.UFun("godiv", "(define-fun godiv ((a Int) (b Int)) Int (ite (>= a 0) (div a b) (- (div (- a) b))))")
			c.R.UFun("gomod", "(define-fun gomod ((a Int) (b Int)) Int (- a (* b (godiv a b))))")
			return app("Int", "gomod", a, b)
		case token.LSS:
			return lt(a, b)
		case token.LEQ:
			return le(a, b)
		case token.GTR:
			return lt(b, a)
		case token.GEQ:
			return le(b, a)
		case token.AND, token.OR, token.XOR, token.SHL, token.SHR, token.AND_NOT:
			f := map[token.Token]string{token.AND: "bitand", token.OR: "bitor", token.XOR: "bitxor", token.SHL: "bitshl", token.SHR: "bitshr", token.AND_NOT: "bitandnot"}[op]
			c.R.UFun(f, "(declare-fun "+f+" (Int Int) Int)")
			return app("Int", f, a, b)
		}
	case "Real":
		switch op {
		case token.ADD:
			return app("Real", "+", a, b)
		case token.SUB:
			return app("Real", "-", a, b)
		case token.MUL:
			return app("Real", "*", a, b)
		case token.QUO:
			return app("Real", "/", a, b)
		case token.LSS:
			return lt(a, b)
		case token.LEQ:
			return le(a, b)
		case token.GTR:
			return lt(b, a)
		case token.GEQ:
			return le(b, a)
		}
	case "Str":
		switch op {
		case token.ADD:
			return app("Str", "strcat", a, b)
		case token.LSS:
			return app("Bool", "strlt", a, b)
		case token.GTR:
			return app("Bool", "strlt", b, a)
		case token.LEQ:
			return Not(app("Bool", "strlt", b, a))
		case token.GEQ:
			return Not(app("Bool", "strlt", a, b))
		}
	case "Bool":
		switch op {
		case token.AND, token.LAND:
			return And(a, b)
		case token.OR, token.LOR:
			return Or(a, b)
		}
	}
	c.unsupported("binop %s on %s", op, s)
	if x != nil {
		return c.R.Zero(x.Type())
	}
	return False
}

func (fr *frame) equal(a, b T, t types.Type) T {
	switch a.Sort {
	case "Slice":
		// only comparison with nil is legal
		if b.S == NilSlice.S {
			return Eq(SArr(a), Nil)
		}
		if a.S == NilSlice.S {
			return Eq(SArr(b), Nil)
		}
	}
	return Eq(a, b)
}

func (c *Ctx) convertStruct(v T, from, to types.Type) T {
	fs, ts := c.R.SortOf(from), c.R.SortOf(to)
	if fs == ts {
		return v
	}
	fst, ok1 := under(from).(*types.Struct)
	_, ok2 := under(to).(*types.Struct)
	if ok1 && ok2 {
		fi, ti := c.R.structOf(from), c.R.structOf(to)
		var args []T
		for i := 0; i < fst.NumFields(); i++ {
			args = append(args, app(fi.Fields[i].Sort, fmt.Sprintf("%s_f%d", fi.Name, i), v))
		}
		if len(args) == 0 {
			return T{"mk_" + ti.Name, ti.Name}
		}
		return app(ti.Name, "mk_"+ti.Name, args...)
	}
	c.unsupported("ChangeType %s -> %s", from, to)
	return c.R.Zero(to)
}

func (fr *frame) execConvert(x *ssa.Convert, st *State) {
	c := fr.c
	v := fr.val(x.X)
	from, to := c.R.SortOf(x.X.Type()), c.R.SortOf(x.Type())
	switch {
	case from == to:
		fr.vals[x] = v
	case from == "Int" && to == "Real":
		fr.setVal(x, app("Real", "to_real", v))
	case from == "Real" && to == "Int":
		c.R.UFun("f2i", "(declare-fun f2i (Real) Int)\n(assert (forall ((i Int)) (! (= (f2i (to_real i)) i) :pattern ((to_real i)))))")
		fr.setVal(x, app("Int", "f2i", v))
	case from == "Slice" && to == "Str":
		c.R.UFun("bytes2str", "(declare-fun bytes2str (Slice (Array Ref Int)) Str)")
		h := c.getHeap(st, c.R.CellHeapT(types.Typ[types.Byte]))
		fr.setVal(x, app("Str", "bytes2str", v, h))
	case from == "Str" && to == "Slice":
		r := c.newObj(st, "bytes")
		ln := app("Int", "strlen", v)
		fr.setVal(x, MkSlice(r, IntLit(0), ln, ln))
	case from == "Int" && to == "Str":
		c.R.UFun("rune2str", "(declare-fun rune2str (Int) Str)")
		fr.setVal(x, app("Str", "rune2str", v))
	case to == "Ref" || from == "Ref":
		fr.vals[x] = c.fresh("conv", to)
	default:
		c.unsupported("convert %s -> %s", x.X.Type(), x.Type())
		fr.vals[x] = c.R.Zero(x.Type())
	}
}

// implements returns the term "dynamic type tag implements interface it".
func (c *Ctx) implements(tag T, it types.Type) T {
	iface := under(it).(*types.Interface)
	if iface.NumMethods() == 0 {
		return True
	}
	name := "impl_" + sanitize(TypeShort(it))
	c.R.UFun(name, "(declare-fun "+name+" (Int) Bool)")
	c.implTypes[name] = it
	return app("Bool", name, tag)
}

// finalizeImplements adds, for every known type id, the static answer of
// every implements predicate used.
func (c *Ctx) implementsFacts() string {
	var b strings.Builder
	// computed lazily in script assembly: see script.go
	return b.String()
}

func (fr *frame) execTypeAssert(x *ssa.TypeAssert, st *State) {
	c := fr.c
	v := fr.val(x.X)
	var ok, val T
	if _, isIface := under(x.AssertedType).(*types.Interface); isIface {
		ok = And(Not(IsNilIface(v)), c.implements(ITyp(v), x.AssertedType))
		c.noteIfaceTarget(x.AssertedType)
		val = v
	} else {
		id := c.R.TypeID(x.AssertedType)
		ok = And(Not(IsNilIface(v)), Eq(ITyp(v), IntLit(int64(id))))
		val = c.R.Unbox(IBox(v), c.R.SortOf(x.AssertedType))
	}
	ok = c.name("ta_ok", ok)
	if _, isPtr := under(x.AssertedType).(*types.Pointer); isPtr {
		// assumption (listed in evidence): interfaces never hold typed-nil pointers
		c.assume(st, Implies(ok, Not(Eq(val, Nil))))
		c.Defaults["interface values never hold typed-nil pointers (x.(*T) succeeds => non-nil)"] = true
	}
	if x.CommaOk {
		res := c.name(x.Name(), Ite(ok, val, c.R.Zero(x.AssertedType)))
		fr.tuples[x] = []T{res, ok}
		c.assume(st, Implies(ok, validTerm(c, st, res, x.AssertedType)))
		return
	}
	fr.safety(st, "type-assert", operandName(x), ok, x.Pos())
	val = c.name(x.Name(), val)
	fr.vals[x] = val
	c.assumeValid(st, val, x.AssertedType)
}

func validTerm(c *Ctx, st *State, v T, t types.Type) T {
	switch v.Sort {
	case "Ref":
		if _, ok := under(t).(*types.Signature); ok {
			return True
		}
		return c.allocated(st, v)
	case "Slice":
		return And(c.allocated(st, SArr(v)), le(IntLit(0), SOff(v)), le(IntLit(0), SLen(v)), le(SLen(v), SCap(v)))
	}
	return True
}

func (fr *frame) execSlice(x *ssa.Slice, st *State) {
	c := fr.c
	b := fr.val(x.X)
	var lo, hi, mx *T
	if x.Low != nil {
		t := fr.val(x.Low)
		lo = &t
	}
	if x.High != nil {
		t := fr.val(x.High)
		hi = &t
	}
	if x.Max != nil {
		t := fr.val(x.Max)
		mx = &t
	}
	zero := IntLit(0)
	switch u := under(x.X.Type()).(type) {
	case *types.Slice:
		l := zero
		if lo != nil {
			l = *lo
		}
		h := SLen(b)
		if hi != nil {
			h = *hi
		}
		cp := SCap(b)
		if mx != nil {
			cp = *mx
			fr.safety(st, "slice-bounds", operandName(x.X), And(le(zero, l), le(l, h), le(h, cp), le(cp, SCap(b))), x.Pos())
		} else {
			fr.safety(st, "slice-bounds", operandName(x.X), And(le(zero, l), le(l, h), le(h, SCap(b))), x.Pos())
		}
		// slicing a nil slice with 0:0 yields nil
		res := MkSlice(SArr(b), add(SOff(b), l), sub(h, l), sub(cp, l))
		fr.setVal(x, res)
		if rv := fr.vals[x]; rv.S != b.S {
			c.emit("(assert (forall ((j Int)) (! (= (selem %s j) (selem %s (+ %s j))) :pattern ((selem %s j)))))", rv.S, b.S, l.S, rv.S)
		}
	case *types.Pointer:
		arr := under(u.Elem()).(*types.Array)
		n := IntLit(arr.Len())
		fr.nilCheck(st, b, operandName(x.X), x.Pos())
		l := zero
		if lo != nil {
			l = *lo
		}
		h := n
		if hi != nil {
			h = *hi
		}
		cp := n
		if mx != nil {
			cp = *mx
		}
		fr.safety(st, "slice-bounds", operandName(x.X), And(le(zero, l), le(l, h), le(h, cp), le(cp, n)), x.Pos())
		fr.setVal(x, MkSlice(b, l, sub(h, l), sub(cp, l)))
		// slicing a small array (variadic argument lists, composite literals): name
		// the element addresses so quantified facts about the slice have ground
		// terms to match (selem is defined by an axiom triggered on selem terms)
		if arr.Len() <= 8 && lo == nil {
			rv := fr.vals[x]
			for k := int64(0); k < arr.Len(); k++ {
				c.emit("(assert (= (selem %s %d) (ridx %s %d)))", rv.S, k, b.S, k)
			}
		}
	case *types.Basic: // string
		l := zero
		if lo != nil {
			l = *lo
		}
		h := app("Int", "strlen", b)
		if hi != nil {
			h = *hi
		}
		fr.safety(st, "slice-bounds", operandName(x.X), And(le(zero, l), le(l, h), le(h, app("Int", "strlen", b))), x.Pos())
		c.R.UFun("substr", "(declare-fun substr (Str Int Int) Str)\n(assert (forall ((s Str) (l Int) (h Int)) (! (=> (and (<= 0 l) (<= l h) (<= h (strlen s))) (= (strlen (substr s l h)) (- h l))) :pattern ((substr s l h)))))")
		fr.setVal(x, app("Str", "substr", b, l, h))
	default:
		c.unsupported("slice of %s", x.X.Type())
		fr.vals[x] = c.R.Zero(x.Type())
	}
}

// ---- maps -----------------------------------------------------------------------

func (c *Ctx) mapHas(st *State, m T, mt *types.Map, k T) T {
	dh := c.R.MDomHeapT(mt)
	return And(Not(Eq(m, Nil)), Select(Select(c.getHeap(st, dh), m), k))
}

func (c *Ctx) mapGet(st *State, m T, mt *types.Map, k T) T {
	vh := c.R.MValHeapT(mt)
	return Ite(c.mapHas(st, m, mt, k), Select(Select(c.getHeap(st, vh), m), k), c.R.Zero(mt.Elem()))
}

func (c *Ctx) mapLen(st *State, m T, mt *types.Map) T {
	ks := c.R.SortOf(mt.Key())
	dh := c.R.MDomHeapT(mt)
	return Ite(Eq(m, Nil), IntLit(0), app("Int", c.R.Card(ks), Select(c.getHeap(st, dh), m)))
}

func (c *Ctx) mapStore(st *State, m T, mt *types.Map, k, v T) {
	dh, vh := c.R.MDomHeapT(mt), c.R.MValHeapT(mt)
	d := c.getHeap(st, dh)
	c.setHeap(st, dh, Store(d, m, Store(Select(d, m), k, True)))
	vv := c.getHeap(st, vh)
	c.setHeap(st, vh, Store(vv, m, Store(Select(vv, m), k, v)))
}

func (c *Ctx) mapDelete(st *State, m T, mt *types.Map, k T) {
	dh := c.R.MDomHeapT(mt)
	d := c.getHeap(st, dh)
	c.setHeap(st, dh, Ite(Eq(m, Nil), d, Store(d, m, Store(Select(d, m), k, False))))
}

func (fr *frame) execLookup(x *ssa.Lookup, st *State) {
	c := fr.c
	m := fr.val(x.X)
	k := fr.val(x.Index)
	mt, ok := under(x.X.Type()).(*types.Map)
	if !ok { // string index
		fr.safety(st, "index", operandName(x.X)+"[..]", And(le(IntLit(0), k), lt(k, app("Int", "strlen", m))), x.Pos())
		c.R.UFun("strbyte", "(declare-fun strbyte (Str Int) Int)")
		fr.setVal(x, app("Int", "strbyte", m, k))
		return
	}
	v := c.name(x.Name(), c.mapGet(st, m, mt, k))
	c.assumeValid(st, v, mt.Elem())
	if v.Sort == "Ref" || v.Sort == "Slice" {
		if _, dom := st.heaps[c.R.MDomHeapT(mt)]; dom {
			if ent, ok := c.entry, true; ok && ent != nil && st.heaps[c.R.MDomHeapT(mt)].S == ent.heaps[c.R.MDomHeapT(mt)].S {
				c.assumeEntryValid(st, m, v, c.R.MValHeapT(mt))
			}
		}
	}
	if v.Sort == "Iface" {
		c.ifaceLoads = append(c.ifaceLoads, v)
		c.assumeJSON(st, v, mt.Elem())
	}
	fr.hashable(st, k, mt.Key(), x.Pos())
	if x.CommaOk {
		fr.tuples[x] = []T{v, c.name("ok", c.mapHas(st, m, mt, k))}
	} else {
		fr.vals[x] = v
	}
}

// ---- range ------------------------------------------------------------------------

func (fr *frame) execRange(x *ssa.Range, st *State) {
	c := fr.c
	v := fr.val(x.X)
	rec := &rangeRec{x: v, typ: x.X.Type()}
	if mt, ok := under(x.X.Type()).(*types.Map); ok {
		rec.isMap = true
		ks := c.R.SortOf(mt.Key())
		it := c.newObj(st, "iter")
		vh := c.R.VisitedHeap(ks)
		c.setHeap(st, vh, Store(c.getHeap(st, vh), it, T{"((as const " + ArraySort(ks, "Bool") + ") false)", ArraySort(ks, "Bool")}))
		rec.it = it
	} else {
		// string range: position iterator
		it := c.newObj(st, "siter")
		rec.it = it
	}
	fr.rangeIt[x] = rec
	fr.vals[x] = rec.it
}

func (fr *frame) execNext(x *ssa.Next, st *State) {
	c := fr.c
	rng, _ := x.Iter.(*ssa.Range)
	rec := fr.rangeIt[rng]
	if rec == nil {
		c.unsupported("next on unknown iterator in %s", ShortName(fr.fn))
		fr.tuples[x] = []T{False, c.R.Zero(x.Type().(*types.Tuple).At(1).Type()), c.R.Zero(x.Type().(*types.Tuple).At(2).Type())}
		return
	}
	tup := x.Type().(*types.Tuple)
	ok := c.fresh("next_ok", "Bool")
	if !rec.isMap {
		// string iteration: index and rune are nondeterministic within bounds
		i := c.fresh("next_i", "Int")
		r := c.fresh("next_r", "Int")
		c.assume(st, Implies(ok, And(le(IntLit(0), i), lt(i, app("Int", "strlen", rec.x)))))
		fr.tuples[x] = []T{ok, i, r}
		return
	}
	mt := under(rec.typ).(*types.Map)
	ks := c.R.SortOf(mt.Key())
	k := c.fresh("next_k", ks)
	vh := c.R.VisitedHeap(ks)
	vis := Select(c.getHeap(st, vh), rec.it)
	has := c.mapHas(st, rec.x, mt, k)
	// ok: k is a not-yet-visited key of the current map
	c.assume(st, Implies(ok, And(has, Not(Select(vis, k)))))
	// !ok: every current key has been visited
	dh := c.R.MDomHeapT(mt)
	c.emit("(assert (=> (and %s (not %s)) (forall ((kk %s)) (! (=> (and (not (= %s rnil)) (select (select %s %s) kk)) (select %s kk)) :pattern ((select (select %s %s) kk))))))",
		st.pc.S, ok.S, ks, rec.x.S, c.getHeap(st, dh).S, rec.x.S, vis.S, c.getHeap(st, dh).S, rec.x.S)
	val := c.name("next_v", c.mapGet(st, rec.x, mt, k))
	c.assumeValid(st, val, mt.Elem())
	if val.Sort == "Iface" {
		c.assumeJSON(st, val, mt.Elem())
	}
	c.assumeValid(st, k, mt.Key())
	if k.Sort == "Iface" && c.Opt.Safety {
		// a key that is in a Go map is hashable: inserting it would have panicked otherwise
		c.R.UFun("hashableT", "(declare-fun hashableT (Int) Bool)")
		c.useHashable = true
		c.assume(st, Implies(ok, Or(IsNilIface(k), app("Bool", "hashableT", ITyp(k)))))
	}
	// visited' = visited + {k} (only matters when ok)
	h := c.getHeap(st, vh)
	c.setHeap(st, vh, Ite(ok, Store(h, rec.it, Store(vis, k, True)), h))
	_ = tup
	fr.tuples[x] = []T{ok, k, val}
}

// assumeJSON: in decoder functions (option JSONShape) every interface{}
// value read from memory came out of encoding/json.
func (c *Ctx) assumeJSON(st *State, v T, t types.Type) {
	if !c.Opt.JSONShape {
		return
	}
	if it, ok := under(t).(*types.Interface); !ok || it.NumMethods() != 0 {
		return
	}
	c.AssumedJSON = true
	c.assume(st, c.jsonShape(v))
}

// hashable: a map operation with an interface-typed key panics when the
// dynamic type of the key is not comparable.
func (fr *frame) hashable(st *State, k T, kt types.Type, pos token.Pos) {
	if k.Sort != "Iface" || !fr.c.Opt.Safety {
		return
	}
	c := fr.c
	c.R.UFun("hashableT", "(declare-fun hashableT (Int) Bool)")
	c.useHashable = true
	c.oblige(st, "unhashable-key", "map key of dynamic type", Or(IsNilIface(k), app("Bool", "hashableT", ITyp(k))), pos)
}

// escapes reports whether the address of an Alloc (or captured variable) can
// reach a callee or the heap: anything but direct loads, stores to it,
// field/index addressing, and capture by a closure that itself only does
// those things.
func escapes(a ssa.Value) bool {
	refs := a.Referrers()
	if refs == nil {
		return true
	}
	for _, in := range *refs {
		switch x := in.(type) {
		case *ssa.UnOp:
			if x.Op != token.MUL {
				return true
			}
		case *ssa.Store:
			if x.Val == a {
				return true
			}
		case *ssa.FieldAddr:
			if escapes(x) {
				return true
			}
		case *ssa.IndexAddr:
			if escapes(x) {
				return true
			}
		case *ssa.MakeClosure:
			fn := x.Fn.(*ssa.Function)
			for i, b := range x.Bindings {
				if b == a && i < len(fn.FreeVars) {
					if escapes(fn.FreeVars[i]) {
						return true
					}
				}
			}
		case *ssa.DebugRef:
		default:
			return true
		}
	}
	return false
}

// storesTo lists the store instructions that write the cell (or a part of
// it), including those inside closures that capture it.
func storesTo(a ssa.Value) []ssa.Instruction {
	var out []ssa.Instruction
	refs := a.Referrers()
	if refs == nil {
		return nil
	}
	for _, in := range *refs {
		switch x := in.(type) {
		case *ssa.Store:
			if x.Addr == a {
				out = append(out, x)
			}
		case *ssa.FieldAddr:
			out = append(out, storesTo(x)...)
		case *ssa.IndexAddr:
			out = append(out, storesTo(x)...)
		case *ssa.MakeClosure:
			fn := x.Fn.(*ssa.Function)
			for i, b := range x.Bindings {
				if b == a && i < len(fn.FreeVars) {
					out = append(out, storesTo(fn.FreeVars[i])...)
				}
			}
		}
	}
	return out
}

// onlyInitStores: the global is written only by package initialisers.
func (c *Ctx) onlyInitStores(g *ssa.Global) bool {
	for _, fn := range c.W.Funcs {
		if g.Pkg == nil || PkgOfFunc(fn) != g.Pkg.Pkg {
			continue
		}
		if !storesGlobal(fn, g, fn.Name() == "init" || strings.HasPrefix(fn.Name(), "init#")) {
			return false
		}
	}
	return true
}

func storesGlobal(fn *ssa.Function, g *ssa.Global, isInit bool) bool {
	for _, b := range fn.Blocks {
		for _, in := range b.Instrs {
			if st, ok := in.(*ssa.Store); ok && st.Addr == ssa.Value(g) && !isInit {
				return false
			}
		}
	}
	for _, a := range fn.AnonFuncs {
		if !storesGlobal(a, g, isInit) {
			return false
		}
	}
	return true
}

// sourceName: the source-level variable an SSA value is bound to (via debug
// references), else its operand rendering.
func sourceName(v ssa.Value) string {
	if refs := v.Referrers(); refs != nil {
		for _, in := range *refs {
			if d, ok := in.(*ssa.DebugRef); ok && !d.IsAddr && d.Object() != nil {
				return d.Object().Name()
			}
		}
	}
	return operandName(v)
}
