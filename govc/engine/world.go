// Package engine is the verification-condition generator of govc: it loads
// /repo with go/packages, builds go/ssa, symbolically executes the functions
// under contract into SMT-LIB obligations and runs the solvers.
package engine

import (
	"fmt"
	"sync"
	"go/ast"
	"go/token"
	"go/types"
	"os"
	"sort"
	"strings"

	"golang.org/x/tools/go/packages"
	"golang.org/x/tools/go/ssa"
	"golang.org/x/tools/go/ssa/ssautil"
)

const ModPath = "github.com/ovn-org/libovsdb"

// World is the loaded program: packages, SSA, contracts.
type World struct {
	Fset     *token.FileSet
	Pkgs     []*packages.Package
	Prog     *ssa.Program
	SSAPkgs  map[string]*ssa.Package // by import path
	TypePkgs map[string]*types.Package
	Funcs    map[string]*ssa.Function // by short name, e.g. cache.(*RowCache).Update
	Contracts map[string]*Contract    // by short name
	Preds    map[string]*PredDef
	SpecFns  map[string]*SpecFn
	Axioms   []*Axiom
	assignedOutside map[string]bool
	assignMu        sync.Mutex
	Repo     string
	LoadErrs []string
	Groups   map[string]bool // enabled contract groups ("func NAME group G" blocks)
}

// LoadOverlay: extra (virtual) source files, by absolute path below the
// repository: code generated at check time by the repository's own generator.
var LoadOverlay map[string][]byte

// Load loads the given package patterns from repo with build tag verif.
func Load(repo string, patterns ...string) (*World, error) {
	cfg := &packages.Config{
		Mode: packages.NeedName | packages.NeedFiles | packages.NeedCompiledGoFiles | packages.NeedImports |
			packages.NeedDeps | packages.NeedTypes | packages.NeedSyntax | packages.NeedTypesInfo | packages.NeedTypesSizes | packages.NeedModule,
		Dir:        repo,
		BuildFlags: []string{"-tags=verif"},
		Env:        append(os.Environ(), "GOFLAGS=-mod=mod", "GOPROXY=off", "GOSUMDB=off", "GOTOOLCHAIN=local"),
		ParseFile: nil,
		Overlay:   LoadOverlay,
	}
	pkgs, err := packages.Load(cfg, patterns...)
	if err != nil {
		return nil, err
	}
	w := &World{Repo: repo, SSAPkgs: map[string]*ssa.Package{}, TypePkgs: map[string]*types.Package{}, Funcs: map[string]*ssa.Function{},
		Contracts: map[string]*Contract{}, Preds: map[string]*PredDef{}, SpecFns: map[string]*SpecFn{}}
	for _, p := range pkgs {
		for _, e := range p.Errors {
			w.LoadErrs = append(w.LoadErrs, e.Error())
		}
	}
	if len(w.LoadErrs) > 0 {
		return w, fmt.Errorf("load errors: %s", strings.Join(w.LoadErrs, "; "))
	}
	w.Pkgs = pkgs
	if len(pkgs) > 0 {
		w.Fset = pkgs[0].Fset
	}
	prog, spkgs := ssautil.AllPackages(pkgs, ssa.GlobalDebug|ssa.InstantiateGenerics)
	prog.Build()
	w.Prog = prog
	for i, sp := range spkgs {
		if sp == nil {
			continue
		}
		w.SSAPkgs[pkgs[i].PkgPath] = sp
	}
	packages.Visit(pkgs, nil, func(p *packages.Package) {
		if p.Types != nil {
			w.TypePkgs[p.PkgPath] = p.Types
		}
	})
	for fn := range ssautil.AllFunctions(prog) {
		if fn.Pkg == nil && fn.Parent() == nil {
			// wrappers / synthetic
			if fn.Synthetic != "" {
				continue
			}
		}
		w.Funcs[ShortName(fn)] = fn
	}
	return w, nil
}

// ShortName renders an SSA function name with the module path stripped:
// cache.(*RowCache).Update, updates.merge, ovsdb.(*OvsSet).UnmarshalJSON$1.
func ShortName(fn *ssa.Function) string {
	s := fn.String()
	return shorten(s)
}

func shorten(s string) string {
	s = strings.ReplaceAll(s, ModPath+"/", "")
	s = strings.ReplaceAll(s, "database/inmemory", "inmemory")
	s = strings.ReplaceAll(s, "database/transaction", "transaction")
	s = strings.ReplaceAll(s, "ovsdb/serverdb", "serverdb")
	s = strings.ReplaceAll(s, "modelgen/zzgen", "zzgen")
	s = strings.ReplaceAll(s, "github.com/cenkalti/rpc2", "rpc2")
	s = strings.ReplaceAll(s, "github.com/go-logr/logr", "logr")
	s = strings.ReplaceAll(s, "github.com/google/uuid", "uuid")
	s = strings.ReplaceAll(s, "github.com/cenkalti/backoff/v4", "backoff")
	// (*pkg.T).M  ->  pkg.(*T).M
	if strings.HasPrefix(s, "(*") {
		if i := strings.Index(s, ")"); i > 0 {
			inner := s[2:i]
			if j := strings.LastIndex(inner, "."); j > 0 {
				s = inner[:j] + ".(*" + inner[j+1:] + ")" + s[i+1:]
			}
		}
	} else if strings.HasPrefix(s, "(") {
		if i := strings.Index(s, ")"); i > 0 {
			inner := s[1:i]
			if j := strings.LastIndex(inner, "."); j > 0 {
				s = inner[:j] + ".(" + inner[j+1:] + ")" + s[i+1:]
			}
		}
	}
	return s
}

// TypeShort renders a type with the module path stripped.
func TypeShort(t types.Type) string {
	return shortenType(types.TypeString(t, nil))
}

func shortenType(s string) string {
	s = strings.ReplaceAll(s, ModPath+"/", "")
	s = strings.ReplaceAll(s, "database/inmemory", "inmemory")
	s = strings.ReplaceAll(s, "database/transaction", "transaction")
	s = strings.ReplaceAll(s, "ovsdb/serverdb", "serverdb")
	s = strings.ReplaceAll(s, "modelgen/zzgen", "zzgen")
	s = strings.ReplaceAll(s, "github.com/cenkalti/rpc2", "rpc2")
	s = strings.ReplaceAll(s, "github.com/go-logr/logr", "logr")
	s = strings.ReplaceAll(s, "github.com/google/uuid", "uuid")
	return s
}

// FuncsMatching returns the functions whose short name matches the pattern.
// A pattern is an exact short name, or ends with '*' for a prefix match
// (closures Func$1 are matched by "Func$*").
func (w *World) FuncsMatching(pat string) []*ssa.Function {
	var out []*ssa.Function
	if strings.HasSuffix(pat, "*") {
		pre := strings.TrimSuffix(pat, "*")
		for n, f := range w.Funcs {
			if strings.HasPrefix(n, pre) {
				out = append(out, f)
			}
		}
		sort.Slice(out, func(i, j int) bool { return ShortName(out[i]) < ShortName(out[j]) })
		return out
	}
	if f, ok := w.Funcs[pat]; ok {
		return []*ssa.Function{f}
	}
	return nil
}

// PkgOfFunc returns the types.Package a function belongs to (closures: parent's).
func PkgOfFunc(fn *ssa.Function) *types.Package {
	for f := fn; f != nil; f = f.Parent() {
		if f.Pkg != nil {
			return f.Pkg.Pkg
		}
		if f.Parent() == nil {
			if o := f.Object(); o != nil {
				return o.Pkg()
			}
		}
	}
	return nil
}

// InRepo reports whether fn is defined in the repository under verification.
func InRepo(fn *ssa.Function) bool {
	p := PkgOfFunc(fn)
	return p != nil && strings.HasPrefix(p.Path(), ModPath)
}

func (w *World) Pos(p token.Pos) string {
	if !p.IsValid() || w.Fset == nil {
		return "-"
	}
	pp := w.Fset.Position(p)
	f := strings.TrimPrefix(pp.Filename, w.Repo+"/")
	return fmt.Sprintf("%s:%d", f, pp.Line)
}

// SourceText returns the source text for an AST node (for obligation labels).
func (w *World) SourceText(n ast.Node) string {
	if n == nil {
		return ""
	}
	p1 := w.Fset.Position(n.Pos())
	p2 := w.Fset.Position(n.End())
	b, err := os.ReadFile(p1.Filename)
	if err != nil || p1.Offset < 0 || p2.Offset > len(b) || p1.Offset > p2.Offset {
		return ""
	}
	s := string(b[p1.Offset:p2.Offset])
	s = strings.Join(strings.Fields(s), " ")
	if len(s) > 60 {
		s = s[:57] + "..."
	}
	return s
}

// DefaultPkgs are the library packages (example/ and cmd/ are not loaded:
// example/ does not compile on the pinned tree without generated code).
var DefaultPkgs = []string{"./cache", "./client", "./database/...", "./mapper", "./model", "./modelgen", "./ovsdb/...", "./server", "./updates"}
