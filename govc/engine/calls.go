package engine

import (
	"fmt"
	"strings"
	"sort"
	"go/token"
	"go/types"

	"golang.org/x/tools/go/ssa"
)

func (fr *frame) snapshotCallArgs(cc *ssa.CallCommon) {
	for _, a := range cc.Args {
		fr.val(a)
	}
	if cc.IsInvoke() || cc.StaticCallee() == nil {
		fr.val(cc.Value)
	}
}

// freshResults makes arbitrary result values of the signature's result types.
func (fr *frame) freshResults(st *State, sig *types.Signature, hint string) []T {
	c := fr.c
	var out []T
	for i := 0; i < sig.Results().Len(); i++ {
		t := sig.Results().At(i).Type()
		v := c.fresh(hint+"_r", c.R.SortOf(t))
		c.assumeValid(st, v, t)
		out = append(out, v)
	}
	return out
}

func calleeName(cc *ssa.CallCommon) string {
	if cc.IsInvoke() {
		recv := TypeShort(cc.Value.Type())
		return recv + "." + cc.Method.Name()
	}
	if f := cc.StaticCallee(); f != nil {
		return ShortName(f)
	}
	if b, ok := cc.Value.(*ssa.Builtin); ok {
		return "builtin." + b.Name()
	}
	return "dynamic:" + operandName(cc.Value)
}

// call executes a call and returns its results; for a traced callee whose last
// result is an error, the ghost counter fails("F") counts the calls that
// returned a non-nil error.
func (fr *frame) call(cc *ssa.CallCommon, st *State, site ssa.Value, pos token.Pos) []T {
	res := fr.call0(cc, st, site, pos)
	if _, isBuiltin := cc.Value.(*ssa.Builtin); !isBuiltin {
		name := calleeName(cc)
		if fr.c.tracked(name) && len(res) > 0 && res[len(res)-1].Sort == "Iface" {
			rs := cc.Signature().Results()
			if rs.Len() == len(res) && types.Identical(rs.At(rs.Len()-1).Type(), errorType) {
				h := "CntFail_" + sanitize(name)
				fr.c.R.Heap(h, "Int")
				cur := fr.c.getHeap(st, h)
				fr.c.setHeap(st, h, Ite(IsNilIface(res[len(res)-1]), cur, add(cur, IntLit(1))))
			}
		}
	}
	return res
}

func (fr *frame) call0(cc *ssa.CallCommon, st *State, site ssa.Value, pos token.Pos) []T {
	c := fr.c
	sig := cc.Signature()
	var args []T
	for _, a := range cc.Args {
		args = append(args, fr.val(a))
	}
	// builtins
	if b, ok := cc.Value.(*ssa.Builtin); ok {
		return fr.builtin(b, cc, args, st, site, pos)
	}
	name := calleeName(cc)
	c.lastCallName = name
	fr.atCall(name, st, pos, cc, args, site)
	fr.noteCall(name, st)
	if cc.IsInvoke() {
		recv := fr.val(cc.Value)
		fr.safety(st, "nil-deref", "method call on nil interface "+operandName(cc.Value)+"."+cc.Method.Name(), Not(IsNilIface(recv)), pos)
		if res, ok := fr.externalModel(name, cc, append([]T{recv}, args...), st, pos); ok {
			return res
		}
		if ct := c.W.Contracts[name]; ct != nil {
			if ct.Iterator {
				if res, ok := fr.iteratorCall(ct, cc, args, st, pos, name); ok {
					return res
				}
			}
			return fr.contractCall(ct, nil, cc, append([]T{recv}, args...), st, pos, name)
		}
		return fr.defaultCall(name, cc, st, methodInRepo(cc.Method))
	}
	callee := cc.StaticCallee()
	var bindings []T
	if callee == nil {
		// dynamic call through a function value
		fv := fr.val(cc.Value)
		if d, ok := c.closures[fv.S]; ok {
			callee, bindings = d.fn, d.bindings
			name = ShortName(callee)
		} else {
			fr.safety(st, "nil-deref", "call of nil func "+operandName(cc.Value), Not(Eq(fv, Nil)), pos)
			c.Unverified["dynamic call "+operandName(cc.Value)] = true
			if len(funcTargets(cc.Value, 0)) > 0 {
				// one of a few closures evident in this function: the ghost call
				// counters of functions none of them can reach survive
				c.havocAllCallees(st, []*ssa.CallCommon{cc})
			} else {
				c.havocAll(st)
			}
			return fr.freshResults(st, sig, "dyn")
		}
	} else if mc, ok := cc.Value.(*ssa.MakeClosure); ok {
		for _, b := range mc.Bindings {
			bindings = append(bindings, fr.val(b))
		}
	}
	if res, ok := fr.externalModel(name, cc, args, st, pos); ok {
		return res
	}
	ct := c.W.Contracts[name]
	if ct != nil && ct.Iterator {
		if res, ok := fr.iteratorCall(ct, cc, args, st, pos, name); ok {
			return res
		}
	}
	if ct != nil && !ct.Inline {
		return fr.contractCall(ct, callee, cc, args, st, pos, name)
	}
	inRepo := InRepo(callee)
	if inRepo && len(callee.Blocks) > 0 && ((ct != nil && ct.Inline) || callee.Parent() != nil && c.Opt.AutoInline >= 0 && c.inlineDepth < 6 ||
		c.inlineDepth < c.Opt.AutoInline) && !fr.onStack(callee) {
		return fr.inlineCall(callee, args, bindings, st, pos)
	}
	return fr.defaultCall(name, cc, st, inRepo)
}

func (fr *frame) onStack(fn *ssa.Function) bool {
	for f := fr; f != nil; f = f.parent {
		if f.fn == fn {
			return true
		}
	}
	return false
}

func (fr *frame) defaultCall(name string, cc *ssa.CallCommon, st *State, inRepo bool) []T {
	c := fr.c
	if inRepo {
		c.Unverified[name] = true
		c.havocAllCallee(st, cc)
	} else {
		c.Defaults[name] = true
	}
	return fr.freshResults(st, cc.Signature(), "call")
}

// inlineCall executes the callee's body in place.
func (fr *frame) inlineCall(callee *ssa.Function, args, bindings []T, st *State, pos token.Pos) []T {
	c := fr.c
	c.Inlined[ShortName(callee)] = true
	sub := c.newFrame(callee, fr)
	sub.params = args
	sub.freev = bindings
	sub.contract = c.W.Contracts[ShortName(callee)]
	// the loops that are open at this call: the callee's writes belong to them.
	// (An iterator call has set activeAtCall itself, with its own key added.)
	if !fr.keepActiveAtCall {
		fr.activeAtCall = c.active
	}
	savedActive := c.active
	defer func() { c.active = savedActive }()
	savedPrefix := c.prefix
	c.prefix = c.prefix + callee.Name() + ">"
	c.inlineDepth++
	c.comment("inline %s", ShortName(callee))
	sub.run(st.clone())
	c.inlineDepth--
	c.prefix = savedPrefix
	c.comment("end inline %s", ShortName(callee))
	// merge returns
	var sts []*State
	for _, r := range sub.rets {
		sts = append(sts, r.st)
	}
	m := c.merge(sts)
	var res []T
	if len(sub.rets) > 0 {
		n := len(sub.rets[0].vals)
		var pcs []T
		var live []*retRec
		for _, r := range sub.rets {
			if r.st.pc.S != "false" {
				live = append(live, r)
				pcs = append(pcs, r.st.pc)
			}
		}
		for i := 0; i < n; i++ {
			if len(live) == 0 {
				res = append(res, c.R.Zero(callee.Signature.Results().At(i).Type()))
				continue
			}
			var vs []T
			for _, r := range live {
				vs = append(vs, r.vals[i])
			}
			res = append(res, c.name("ret", c.iteChain(pcs, vs)))
		}
	}
	st.pc, st.heaps = m.pc, m.heaps
	return res
}

// ---- builtins ---------------------------------------------------------------------

func (fr *frame) builtin(b *ssa.Builtin, cc *ssa.CallCommon, args []T, st *State, site ssa.Value, pos token.Pos) []T {
	c := fr.c
	switch b.Name() {
	case "len":
		a := args[0]
		switch u := under(cc.Args[0].Type()).(type) {
		case *types.Slice:
			return []T{SLen(a)}
		case *types.Map:
			return []T{c.name("len", c.mapLen(st, a, u))}
		case *types.Basic:
			return []T{app("Int", "strlen", a)}
		case *types.Array:
			return []T{IntLit(u.Len())}
		case *types.Pointer:
			return []T{IntLit(under(u.Elem()).(*types.Array).Len())}
		case *types.Chan:
			n := c.fresh("chanlen", "Int")
			c.assume(st, le(IntLit(0), n))
			return []T{n}
		}
	case "cap":
		if _, ok := under(cc.Args[0].Type()).(*types.Slice); ok {
			return []T{SCap(args[0])}
		}
		n := c.fresh("cap", "Int")
		c.assume(st, le(IntLit(0), n))
		return []T{n}
	case "append":
		return []T{fr.doAppend(cc, args, st, site)}
	case "copy":
		// copy(dst, src): havoc dst elements
		n := c.fresh("copied", "Int")
		if sl, ok := under(cc.Args[0].Type()).(*types.Slice); ok {
			_, isStruct := under(sl.Elem()).(*types.Struct)
			_, srcIsSlice := under(cc.Args[1].Type()).(*types.Slice)
			if !isStruct && srcIsSlice {
				// exact model: n = min(len(dst), len(src)); dst[j] = src[j] (old
				// contents, copy handles overlap) for j < n; every other cell keeps
				// its value
				h := c.R.CellHeapT(sl.Elem())
				before := c.getHeap(st, h)
				c.havocHeap(st, h)
				after := c.getHeap(st, h)
				dst, src := args[0], args[1]
				c.assume(st, Eq(n, Ite(le(SLen(dst), SLen(src)), SLen(dst), SLen(src))))
				c.emit("(assert (forall ((j Int)) (! (=> (and (<= 0 j) (< j %s)) (= (select %s (selem %s j)) (select %s (selem %s j)))) :pattern ((select %s (selem %s j))))))",
					n.S, after.S, dst.S, before.S, src.S, after.S, dst.S)
				c.emit("(assert (forall ((a Ref)) (! (=> (not (and (= (rroot a) (rroot (sarr %s))) (exists ((j Int)) (and (<= 0 j) (< j %s) (= a (selem %s j)))))) (= (select %s a) (select %s a))) :pattern ((select %s a)))))",
					dst.S, n.S, dst.S, after.S, before.S, after.S)
				return []T{n}
			}
			if !isStruct {
				c.havocHeap(st, c.R.CellHeapT(sl.Elem()))
			} else {
				c.havocAll(st)
			}
		}
		c.assume(st, And(le(IntLit(0), n), le(n, SLen(args[0]))))
		return []T{n}
	case "delete":
		mt := under(cc.Args[0].Type()).(*types.Map)
		c.mapDelete(st, args[0], mt, args[1])
		return nil
	case "close", "print", "println":
		return nil
	case "panic":
		return nil
	case "recover":
		c.unsupported("recover() in %s", ShortName(fr.fn))
		return []T{NilIface}
	case "min", "max":
		if len(args) == 2 && args[0].Sort == "Int" {
			if b.Name() == "min" {
				return []T{Ite(le(args[0], args[1]), args[0], args[1])}
			}
			return []T{Ite(le(args[0], args[1]), args[1], args[0])}
		}
	case "ssa:wrapnilchk":
		return []T{args[0]}
	}
	c.unsupported("builtin %s", b.Name())
	return fr.freshResults(st, cc.Signature(), "builtin")
}

// constSliceLen reports the static length of a slice value built by the
// varargs idiom (slice of new [N]T).
func constSliceLen(v ssa.Value) (int64, bool) {
	switch x := v.(type) {
	case *ssa.Slice:
		if x.Low != nil || x.High != nil {
			return 0, false
		}
		if p, ok := under(x.X.Type()).(*types.Pointer); ok {
			if a, ok := under(p.Elem()).(*types.Array); ok {
				return a.Len(), true
			}
		}
	case *ssa.Const:
		if x.Value == nil {
			return 0, true
		}
	}
	return 0, false
}

func (fr *frame) doAppend(cc *ssa.CallCommon, args []T, st *State, site ssa.Value) T {
	c := fr.c
	s, t := args[0], args[1]
	sl := under(cc.Args[0].Type()).(*types.Slice)
	et := sl.Elem()
	var n T
	constN, isConst := constSliceLen(cc.Args[1])
	if t.Sort == "Str" { // append([]byte, string...)
		n = app("Int", "strlen", t)
		isConst = false
	} else if isConst {
		n = IntLit(constN)
	} else {
		n = SLen(t)
	}
	if isConst && constN == 0 {
		return s
	}
	inplace := c.name("app_inplace", le(add(SLen(s), n), SCap(s)))
	r := c.newObj(st, "arr")
	if site != nil && !c.esc.valueEscapes(site) {
		// the grown array of a slice no callee can reach is private as well
		c.markPrivate(st, r)
	}
	newcap := c.fresh("newcap", "Int")
	c.assume(st, le(add(SLen(s), n), newcap))
	arr := c.name("app_arr", Ite(inplace, SArr(s), r))
	off := c.name("app_off", Ite(inplace, SOff(s), IntLit(0)))
	res := MkSlice(arr, off, add(SLen(s), n), Ite(inplace, SCap(s), newcap))
	resN := c.name("app", res)
	base := c.name("app_base", add(off, SLen(s)))
	// bridge for quantifier instantiation: in place, the result slice and the
	// source slice address the same elements
	c.emit("(assert (=> %s (forall ((j Int)) (! (= (selem %s j) (selem %s j)) :pattern ((selem %s j))))))", inplace.S, resN.S, s.S, resN.S)
	// leaf cells of one element: field-id paths below the element address
	type leaf struct {
		path []int
		typ  types.Type
	}
	var leaves []leaf
	var walk func(t types.Type, path []int)
	walk = func(t types.Type, path []int) {
		if st, ok := under(t).(*types.Struct); ok {
			for i := 0; i < st.NumFields(); i++ {
				walk(st.Field(i).Type(), append(append([]int(nil), path...), c.R.FieldID(t, i)))
			}
			return
		}
		leaves = append(leaves, leaf{append([]int(nil), path...), t})
	}
	walk(et, nil)
	addrOf := func(elem T, path []int) T {
		a := elem
		for _, f := range path {
			a = Fld(a, f)
		}
		return a
	}
	for _, lf := range leaves {
		if _, isArr := under(lf.typ).(*types.Array); isArr {
			c.havocAll(st)
			return resN
		}
		hn := c.R.CellHeapT(lf.typ)
		h := c.getHeap(st, hn)
		jv := T{"j", "Int"}
		// prefix copy when a new array is allocated: r is fresh, so its cells in
		// the current heap are unobservable garbage; we pick the garbage to be the
		// copied prefix (same device as zero-initialisation in MakeSlice).
		dst, src := addrOf(Elem(resN, jv), lf.path), addrOf(Elem(s, jv), lf.path)
		c.emit("(assert (=> (and %s (not %s)) (forall ((j Int)) (! (=> (and (<= 0 j) (< j %s)) (= (select %s %s) (select %s %s))) :pattern ((select %s %s))))))",
			st.pc.S, inplace.S, SLen(s).S, h.S, dst.S, h.S, src.S, h.S, dst.S)
		if isConst && t.Sort != "Str" {
			cur := h
			for j := int64(0); j < constN; j++ {
				ev := Select(h, addrOf(Elem(t, IntLit(j)), lf.path))
				cur = Store(cur, addrOf(Elem(resN, add(SLen(s), IntLit(j))), lf.path), ev)
			}
			c.setHeap(st, hn, cur)
			continue
		}
		// dynamic count: havoc the cells [base, base+n) of the result array
		h2 := c.fresh(hn, h.Sort)
		cur := "a"
		var conds []string
		for i := len(lf.path) - 1; i >= 0; i-- {
			conds = append(conds, fmt.Sprintf("((_ is rfld) %s) (= (rfid %s) %d)", cur, cur, lf.path[i]))
			cur = "(rbase " + cur + ")"
		}
		conds = append(conds, fmt.Sprintf("((_ is ridx) %s) (= (rarr %s) %s) (<= %s (riidx %s)) (< (riidx %s) (+ %s %s))", cur, cur, arr.S, base.S, cur, cur, base.S, n.S))
		c.emit("(assert (forall ((a Ref)) (! (=> (not (and %s)) (= (select %s a) (select %s a))) :pattern ((select %s a)))))", strings.Join(conds, " "), h2.S, h.S, h2.S)
		if t.Sort != "Str" {
			d2, s2 := addrOf(Elem(resN, app("Int", "+", SLen(s), jv)), lf.path), addrOf(Elem(t, jv), lf.path)
			c.emit("(assert (forall ((j Int)) (! (=> (and (<= 0 j) (< j %s)) (= (select %s %s) (select %s %s))) :pattern ((select %s %s)))))",
				n.S, h2.S, d2.S, h.S, s2.S, h.S, s2.S)
		}
		c.setHeap(st, hn, h2)
	}
	return resN
}

// noteCall records the call in the ghost call trace (see trace.go).
func (fr *frame) noteCall(name string, st *State) {
	fr.c.traceCall(name, st)
}

// atCall checks the `at call F requires e` clauses of the top-level contract.
func (fr *frame) atCall(name string, st *State, pos token.Pos, cc *ssa.CallCommon, args []T, site interface{}) {
	c := fr.c
	if c.topFrame == nil || c.topFrame.contract == nil {
		return
	}
	cls := c.topFrame.contract.AtCalls[name]
	if len(cls) == 0 {
		return
	}
	env := c.topFrame.env(st)
	if in, ok := site.(ssa.Instruction); ok && site != nil && fr == c.topFrame && in.Block() != nil {
		env.atBlock = in.Block()
		for i, x := range in.Block().Instrs {
			if x == in {
				env.atIdx = i
			}
		}
	}
	// the call's arguments are visible as arg0, arg1, ... (receiver first for
	// static method calls)
	for i, a := range args {
		if cc != nil && i < len(cc.Args) {
			env.vars[fmt.Sprintf("arg%d", i)] = cval{t: a, typ: cc.Args[i].Type()}
		}
	}
	if mu, ok := site.(*ssa.MapUpdate); ok && cc == nil && len(args) == 2 {
		// at update <map>: arg0 = key, arg1 = value
		env.vars["arg0"] = cval{t: args[0], typ: mu.Key.Type()}
		env.vars["arg1"] = cval{t: args[1], typ: mu.Value.Type()}
	}
	for _, cl := range cls {
		t, err := env.Bool(cl.Expr)
		if err != nil {
			c.unsupported("at call %s requires %q: %v", name, cl.Text, err)
			continue
		}
		c.oblige(st, "at-call", name+": "+cl.Text, t, pos)
	}
	c.atCallSeen[name]++
}

// iteratorCall models a call to a function declared `iterator`: it invokes
// its func argument (a closure known at this call site) an arbitrary number of
// times on arbitrary arguments and has no other effect on the verified heap.
// The closure body is treated as the body of a loop: heaps it writes are
// havocked, the top-level frame conditions are assumed at the head and
// re-established after one arbitrary execution of the body.
func (fr *frame) iteratorCall(ct *Contract, cc *ssa.CallCommon, args []T, st *State, pos token.Pos, name string) ([]T, bool) {
	c := fr.c
	var clo *closureDesc
	for _, a := range cc.Args {
		if _, ok := under(a.Type()).(*types.Signature); ok {
			if d, ok := c.closures[fr.val(a).S]; ok {
				clo = d
			}
		}
	}
	if clo == nil {
		return nil, false
	}
	c.UsedContracts[name] = true
	c.iterSeq++
	key := fmt.Sprintf("%s#iter%d", fr.key, c.iterSeq)
	c.comment("iterator %s over closure %s", name, ShortName(clo.fn))
	if c.scan {
		c.loopWrites[key] = map[string]bool{}
	} else {
		snaps := c.snapshotStable(st, func(sc *stableCell) bool {
			for _, in := range sc.stores {
				for f := in.Parent(); f != nil; f = f.Parent() {
					if f == clo.fn {
						return false
					}
				}
			}
			return true
		})
		if c.loopAll[key] && !c.loopAllUnknown[key] {
			c.rawHavoc = true
			c.havocAllCallees(st, c.loopCallees[key])
			c.rawHavoc = false
		} else if c.loopAll[key] {
			c.rawHavoc = true
			c.havocAll(st)
			c.rawHavoc = false
		} else {
			var names []string
			for n := range c.loopWrites[key] {
				names = append(names, n)
			}
			sort.Strings(names)
			for _, n := range names {
				if n == HLockW || n == HLockR || n == HDefW || n == HDefR {
					continue
				}
				if n == HAlloc || n == HPriv {
					old := c.getHeap(st, n)
					c.havocHeap(st, n)
					nw := st.heaps[n]
					c.emit("(assert (forall ((a Ref)) (! (=> (select %s a) (select %s a)) :pattern ((select %s a)))))", old.S, nw.S, nw.S)
					continue
				}
				c.havocHeap(st, n)
			}
		}
		c.restoreStable(st, snaps)
		for _, fc := range c.topFrameConds(st) {
			c.assume(st, fc.cond)
		}
	}
	// one arbitrary execution of the body
	body := st.clone()
	var bargs []T
	for _, p := range clo.fn.Params {
		v := c.fresh("it_"+p.Name(), c.R.SortOf(p.Type()))
		c.assumeValid(body, v, p.Type())
		bargs = append(bargs, v)
	}
	saved := c.active
	if c.scan {
		c.active = append(append([]string(nil), c.active...), key)
	}
	fr.activeAtCall = c.active
	fr.keepActiveAtCall = true
	fr.inlineCallWithActive(clo.fn, bargs, clo.bindings, body, pos)
	fr.keepActiveAtCall = false
	c.active = saved
	if !c.scan {
		for _, fc := range c.topFrameConds(body) {
			c.oblige(body, "frame-inv", "iterator "+name+": "+fc.name, fc.cond, pos)
		}
		lockNames := []string{HLockW, HLockR}
		for _, h := range lockNames {
			if _, ok := c.R.heaps[h]; ok {
				c.oblige(body, "lock-balance-loop", "iterator "+name+": "+h, Eq(c.getHeap(body, h), c.getHeap(st, h)), pos)
			}
		}
	}
	return fr.freshResults(st, cc.Signature(), "iter"), true
}

func (fr *frame) inlineCallWithActive(callee *ssa.Function, args, bindings []T, st *State, pos token.Pos) []T {
	keep := fr.c.active
	res := fr.inlineCall(callee, args, bindings, st, pos)
	fr.c.active = keep
	return res
}
