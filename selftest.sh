#!/bin/bash
# Must-fail corpus: every seeded change listed in seeded/EXPECT must make at
# least one of the listed checks exit 1 with a VIOLATION line, and the clean
# tree must pass them. Runs on a scratch copy of /repo (never touches /repo).
# usage: ./selftest.sh [seed-name ...]
cd "$(dirname "$0")"
export GOFLAGS=-mod=mod GOPROXY=off GOSUMDB=off GOTOOLCHAIN=local
scratch=/var/tmp/govc-selftest-$$
out=/var/tmp/govc-selftest-out-$$
trap 'git -C /repo worktree remove --force $scratch 2>/dev/null; rm -rf $scratch $out' EXIT
git -C /repo worktree add -q --detach $scratch HEAD || exit 2
fail=0
while read -r seed props; do
  [ -z "$seed" ] && continue
  case "$seed" in \#*) continue;; esac
  if [ $# -gt 0 ]; then echo " $* " | grep -q " $seed " || continue; fi
  d=seeded/$seed
  p=$d/patch.diff; [ -f $d/ported.diff ] && p=$d/ported.diff
  if ! git -C $scratch apply --check $PWD/$p 2>/dev/null; then echo "SELFTEST $seed: patch does not apply"; fail=1; continue; fi
  git -C $scratch apply $PWD/$p
  caught=""
  for prop in $props; do
    ./bin/govc check -prop $prop -repo $scratch -out $out > $out.log 2>&1; rc=$?
    if [ $rc -eq 1 ] && grep -q "^VIOLATION property=$prop" $out.log; then caught="$caught $prop"; fi
  done
  git -C $scratch checkout -q -- . ; git -C $scratch clean -fdq
  if [ -n "$caught" ]; then echo "SELFTEST $seed: caught by$caught"; else echo "SELFTEST $seed: MISSED (expected one of: $props)"; fail=1; fi
done < seeded/EXPECT
exit $fail
