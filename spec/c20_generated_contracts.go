//go:build verif

// Contracts for the code the generator emits for spec/c20_rich.ovsschema
// (extended generation). This file exists only in govc's load overlay: it is
// placed next to the generated files as modelgen/zzgen/verif_contracts.go.
package zzgen

//@ pred SameCfg(a map[string]string, b map[string]string) := ((a == nil) == (b == nil)) && (forall k: string :: ((k in a) == (k in b)) && ((k in a) ==> a[k] == b[k]))
//@ func copyRichTableCfg
//@ modifies nothing
//@ ensures a == nil ==> result == nil
//@ ensures a != nil ==> (result != nil && fresh(result) && SameCfg(a, result))
//@ loop 1 invariant b != nil && fresh(b)
//@ loop 1 invariant forall k: string :: (k in b) == (visited(k) && (k in a))
//@ loop 1 invariant forall k: string :: (k in b) ==> b[k] == a[k]
//@ func equalRichTableCfg
//@ pure
//@ ensures SameCfg(a, b) ==> result
//@ ensures result ==> (((a == nil) == (b == nil)) && len(a) == len(b) && (forall k: string :: (k in a) ==> ((k in b) && a[k] == b[k])))
//@ loop 1 invariant forall k: string :: visited(k) ==> ((k in b) && a[k] == b[k])

//@ pred SameCounters(a map[string]int, b map[string]int) := ((a == nil) == (b == nil)) && (forall k: string :: ((k in a) == (k in b)) && ((k in a) ==> a[k] == b[k]))
//@ func copyRichTableCounters
//@ modifies nothing
//@ ensures a == nil ==> result == nil
//@ ensures a != nil ==> (result != nil && fresh(result) && SameCounters(a, result))
//@ loop 1 invariant b != nil && fresh(b)
//@ loop 1 invariant forall k: string :: (k in b) == (visited(k) && (k in a))
//@ loop 1 invariant forall k: string :: (k in b) ==> b[k] == a[k]
//@ func equalRichTableCounters
//@ pure
//@ ensures SameCounters(a, b) ==> result
//@ ensures result ==> (((a == nil) == (b == nil)) && len(a) == len(b) && (forall k: string :: (k in a) ==> ((k in b) && a[k] == b[k])))
//@ loop 1 invariant forall k: string :: visited(k) ==> ((k in b) && a[k] == b[k])

//@ pred SameModes(a []RichTableModes, b []RichTableModes) := ((a == nil) == (b == nil)) && len(a) == len(b) && (forall i: int :: 0 <= i && i < len(a) ==> a[i] == b[i])
//@ func copyRichTableModes
//@ modifies nothing
//@ ensures a == nil ==> result == nil
//@ ensures a != nil ==> (result != nil && fresh(result) && SameModes(a, result))
//@ func equalRichTableModes
//@ pure
//@ ensures result == SameModes(a, b)
//@ loop 1 invariant forall i: int :: 0 <= i && i <= rangeindex ==> a[i] == b[i]

//@ pred SameNums(a []int, b []int) := ((a == nil) == (b == nil)) && len(a) == len(b) && (forall i: int :: 0 <= i && i < len(a) ==> a[i] == b[i])
//@ func copyRichTableNums
//@ modifies nothing
//@ ensures a == nil ==> result == nil
//@ ensures a != nil ==> (result != nil && fresh(result) && SameNums(a, result))
//@ func equalRichTableNums
//@ pure
//@ ensures result == SameNums(a, b)
//@ loop 1 invariant forall i: int :: 0 <= i && i <= rangeindex ==> a[i] == b[i]

//@ pred SameTags(a []string, b []string) := ((a == nil) == (b == nil)) && len(a) == len(b) && (forall i: int :: 0 <= i && i < len(a) ==> a[i] == b[i])
//@ func copyRichTableTags
//@ modifies nothing
//@ ensures a == nil ==> result == nil
//@ ensures a != nil ==> (result != nil && fresh(result) && SameTags(a, result))
//@ func equalRichTableTags
//@ pure
//@ ensures result == SameTags(a, b)
//@ loop 1 invariant forall i: int :: 0 <= i && i <= rangeindex ==> a[i] == b[i]

//@ pred SameOpt(a *string, b *string) := ((a == nil) == (b == nil)) && (a != nil ==> *a == *b)
//@ func copyRichTableOpt
//@ modifies nothing
//@ ensures a == nil ==> result == nil
//@ ensures a != nil ==> (result != nil && fresh(result) && *result == *a)
//@ func equalRichTableOpt
//@ pure
//@ ensures result == SameOpt(a, b)

//@ pred SameOptMode(a *RichTableOptMode, b *RichTableOptMode) := ((a == nil) == (b == nil)) && (a != nil ==> *a == *b)
//@ func copyRichTableOptMode
//@ modifies nothing
//@ ensures a == nil ==> result == nil
//@ ensures a != nil ==> (result != nil && fresh(result) && *result == *a)
//@ func equalRichTableOptMode
//@ pure
//@ ensures result == SameOptMode(a, b)

//@ pred SameOptN(a *int, b *int) := ((a == nil) == (b == nil)) && (a != nil ==> *a == *b)
//@ func copyRichTableOptN
//@ modifies nothing
//@ ensures a == nil ==> result == nil
//@ ensures a != nil ==> (result != nil && fresh(result) && *result == *a)
//@ func equalRichTableOptN
//@ pure
//@ ensures result == SameOptN(a, b)

// equal field by field
//@ pred SameRow(a *RichTable, b *RichTable) := a.UUID == b.UUID && a.Mode == b.Mode && a.N == b.N && a.Name == b.Name && a.Ratio == b.Ratio && a.Ref == b.Ref && a.Up == b.Up && SameCfg(a.Cfg, b.Cfg) && SameCounters(a.Counters, b.Counters) && SameModes(a.Modes, b.Modes) && SameNums(a.Nums, b.Nums) && SameTags(a.Tags, b.Tags) && SameOpt(a.Opt, b.Opt) && SameOptMode(a.OptMode, b.OptMode) && SameOptN(a.OptN, b.OptN)
// no memory shared: every reference field of the copy is a new object
//@ pred Unshared(a *RichTable, b *RichTable) := (a.Cfg != nil ==> fresh(b.Cfg)) && (a.Counters != nil ==> fresh(b.Counters)) && (a.Modes != nil ==> fresh(b.Modes)) && (a.Nums != nil ==> fresh(b.Nums)) && (a.Tags != nil ==> fresh(b.Tags)) && (a.Opt != nil ==> fresh(b.Opt)) && (a.OptMode != nil ==> fresh(b.OptMode)) && (a.OptN != nil ==> fresh(b.OptN))
//@ func (*RichTable).DeepCopyInto
//@ requires a != nil && b != nil && a != b
//@ modifies *b
//@ ensures SameRow(a, b) && Unshared(a, b)
//@ func (*RichTable).DeepCopy
//@ requires a != nil
//@ modifies nothing
//@ ensures result != nil && fresh(result) && SameRow(a, result) && Unshared(a, result)
//@ func (*RichTable).Equals
//@ requires a != nil && b != nil
//@ pure
//@ ensures SameRow(a, b) ==> result
//@ ensures result ==> (a.UUID == b.UUID && a.Mode == b.Mode && a.N == b.N && a.Name == b.Name && a.Ratio == b.Ratio && a.Ref == b.Ref && a.Up == b.Up)

// composition of the contracts above: a deep copy equals its original
//@ func zzLemmaCopyIsEqual
//@ requires a != nil
//@ ensures result
