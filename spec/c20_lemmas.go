//go:build verif

// Proof scaffolding for C20 (exists only in govc's load overlay, next to the
// generated files): a client of the generated methods whose postcondition is
// the law "a copy is equal to its original". It is verified against the
// CONTRACTS of DeepCopy and Equals, so it holds for every row.
package zzgen

func zzLemmaCopyIsEqual(a *RichTable) bool {
	b := a.DeepCopy()
	return a.Equals(b)
}
