#!/usr/bin/env python3
# usage: extract_obl.py <workdir> <substring of obligation name> <out.smt2>
# Builds a standalone SMT script for one obligation (earlier obligations become assumptions,
# as in the chunk scripts).
import sys,glob,re
wd,pat,out=sys.argv[1:4]
for f in sorted([g for g in glob.glob(wd+'/*.smt2') if 'covers' not in g and 'retry' not in g and 'model' not in g and ('.s0.' in g or g.count('.')==1)]):
    lines=open(f).read().split('\n')
    if not any(l.startswith('(push 1) ; OBL') and pat in l for l in lines): continue
    res=[];i=0
    while i<len(lines):
        l=lines[i]
        if l.startswith('(push 1) ; OBL'):
            if pat in l:
                res.append('; '+l); res.append(lines[i+1]); res.append('(check-sat)'); break
            while not lines[i].startswith('(pop 1)'): i+=1
        else: res.append(l)
        i+=1
    open(out,'w').write('\n'.join(res)+'\n'); print('from',f); sys.exit(0)
print('not found'); sys.exit(1)
