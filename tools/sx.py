# tiny s-expression helpers
def parse(s):
    i=0;n=len(s)
    def rd():
        nonlocal i
        while s[i].isspace(): i+=1
        if s[i]=='(':
            i+=1; l=[]
            while True:
                while s[i].isspace(): i+=1
                if s[i]==')': i+=1; return l
                l.append(rd())
        j=i
        if s[i]=='|':
            i=s.index('|',i+1)+1; return s[j:i]
        while not s[i].isspace() and s[i] not in '()': i+=1
        return s[j:i]
    return rd()
def show(x):
    return x if isinstance(x,str) else '('+' '.join(show(y) for y in x)+')'
